"""regenerate MANIFEST.json from the table below (keeps it valid at all times)"""
import json, os
HERE = os.path.dirname(os.path.dirname(os.path.abspath(__file__)))
SETUP = ("/venv/bin/python -m pip install --no-index --find-links /opt/veriftools/wheels --no-deps --target /verif/.deps "
         "z3-solver sympy mpmath jsonschema jsonschema_specifications referencing rpds_py attrs typing_extensions")
NOTE = ("Idealisation: IEEE arithmetic = exact arithmetic over Q(i), tolerance tests = exact zero tests. Trusted: CPython, numpy structural ops on object arrays, "
        "leaf contracts in gvc/snp.py, sympy/z3/cvc5 and the solver gvc/alg.py. Discrete shape parameters (collection shapes, vertex counts, exponents) are enumerated, not proved for all values.")
CLAIMED = {
 "C01": ("Every kind/arity of join and meet in 2D and 3D is executed symbolically on the real code (all complex coordinates, finite or at infinity); incidence, the cofactor spec, validity of 3D line tensors, order independence, both round trips and the body of the power-of-two normalisation (real and complex-dtype branch) are discharged as polynomial identities / ideal-membership obligations for every path.", "4.1"),
 "C02": ("On every explored path of join/meet: raises LinearDependenceError only if the rank condition holds, returns only if it does not; NotCoplanar iff det[a,b,c,d] != 0; is_coplanar <=> det = 0. Discharged exactly over all complex coordinates (idealised zero test).", "4.2"),
 "C20": ("det (n=2, Sarrus n=3 for batches >= 64, LAPACK leaf otherwise), adjugate (n=2; epsilon diagram n=3,4; minors for batches >= 64 and n=5), inv (adj/det path with LinAlgError iff singular), is_multiple (<=> all 2x2 minors vanish, every axis form), hat_matrix, matmul/matvec/outer, roots (linear, quadratic with Vieta, triple root) are executed symbolically and discharged against Leibniz/cofactor specifications for all entries; batches are A + k*B so that every batch position ranges over all matrices.", "4.20"),
 "C05": ("TensorDiagram construction and evaluation is executed on symbolic tensor entries for an enumerated set of diagram structures (all 1-2 node diagrams over 23 index-type patterns with up to 3 edges, sampled 3-node diagrams incl. self edges, repeated edges and dimension mismatches): bookkeeping invariants, TensorComputationError <=> spec error, result shape/index types and every result entry == the Einstein sum computed by an independent nested-sum evaluator. LeviCivitaTensor(n<=5, 6 thorough) and KroneckerDelta(n<=4,p) are compared entry by entry with their definitions.", "4.5"),
 "C19": ("Dunder arithmetic of Tensor (all operand kinds, bound tensors and collections), affine point arithmetic incl. points at infinity, fall-through of non-point operands, the whole ufunc->dunder dispatch table, t[index] for every index-kind sequence of ranks 1-3 (rank 4 thorough; integers, slices, None, Ellipsis, index arrays, 1- and 2-axis masks, a boolean scalar alone or combined with the others) against numpy itself as oracle, transpose / T / copy / expand_dims: symbolic entries where values matter, exhaustive enumeration of the finite index-kind and dispatch tables.", "4.19"),
 "C06": ("Tensor.__apply__ / TransformationTensor.__apply__ / inverse / __pow__ / polytope overrides are executed on fully symbolic invertible matrices: t*x equals the tensor action rho(M)(x) entry by entry for points, hyperplanes, 3D lines, quadrics and dual quadrics, (s*t)*x == s*(t*x), identity, t.inverse()*(t*x) == x as exact rational-function identities, t**k == M^k for k in -3..5, segments/triangles move their cached supporting line/plane along; 2D in the quick tier, heavier 3D cases in the thorough tier.", "4.6"),
 "C07": ("For a symbolic invertible matrix: incidence (point/hyperplane, line/plane, point/quadric, hyperplane/dual quadric) is preserved (iff), t*join(..) is proportional to join(t*..) and dually for meet for the 2-argument cases in 2D and 3D (3-argument 3D cases thorough), images of 3D lines are the joins of the image points, polytope vertices are the images in order.", "4.7"),
 "C11": ("crossratio of s_i*A+t_i*B (homogeneous pencil parameters, so points at infinity / at the origin are included) equals the bracket closed form for 1D, 2D, from_point (3D thorough), the four symmetries on the real function, cr(a,a,c,d)=1, NotCollinear/NotConcurrent iff the rank condition, four concurrent lines of any pencil (duality), Lagrange lemma for the Gram precondition.", "4.11"),
 "C12": ("Frame contract `assigns nothing` for every function of geometer/ (except the documented mutators): one obligation per in-place write site (165), discharged by a per-function ownership analysis (object/buffer freshness) that is sound for every call history; canaries and a differential test of the numpy view/copy table run on every check; a native purity monitor (5960 operations on a shared object pool, byte-exact snapshots) is the replay harness.", "4.12"),
 "C16": ("SegmentTensor.contains <=> 0 <= t <= 1 for every real segment and query point (2D and 3D, arbitrary homogeneous representatives, rays with an end point at infinity), off-line points rejected, Triangle.contains <=> all barycentric coordinates >= 0 for all real vertices/points/representatives: proved by z3 on the path conditions of the real code. The generic polygon algorithm is only in the thorough tier (3-gon) - see DESIGN.", "4.16"),
 "C03": ("Projective equality (real __eq__ on the real is_multiple body): x == k*x, reflexive, symmetric, equal <=> all 2x2 minors vanish; relational two-run contracts f(k*x) ~ f(x) for join, meet, contains, is_collinear, quadric membership in every argument position; plus the representative-free specifications of C01/C11/C16/C20 cases that are stated for arbitrary homogeneous representatives (cross ratio in pencil parameters, segment/triangle membership with symbolic scale factors). PolygonTensor.contains only by a bounded stand-in.", "4.3"),
 "C09": ("2D: dist(point, point)^2 equals the squared Cartesian distance for arbitrary homogeneous representatives, dist >= 0, symmetric, zero <=> same point, infinite for exactly one point at infinity; dist(line, point) and dist(point, line) through the real project/perpendicular/mirror/join/meet chain equal |l.p|/(|n| |pz|), zero <=> incident; angle of three points: the value fed to the logarithm satisfies the Laguerre identity w*z == conj(z), antisymmetry (all by z3/normal form for all real inputs). 3D distances (SVD/QR leaves) only by a bounded lattice stand-in; plane-point 3D symbolic in the thorough tier.", "4.9"),
 "C10": ("2D (all real lines/points, arbitrary representatives): perpendicular (both the on-line and off-line branch), parallel, project, mirror (closed-form reflection, hence involution; midpoint on the line), is_parallel / is_perpendicular <=> normal conditions, is_collinear / is_concurrent (3 and 4 arguments) <=> determinants, is_cocircular <=> circle determinant, base_point / direction / general_point / basis_matrix (orthonormal rows on the line) on every zero-pattern path; 3D: PlaneTensor.perpendicular / parallel / project. 3D line constructions, PlaneTensor.mirror/basis_matrix (SVD/QR leaves) and angle_bisectors are not covered.", "4.10"),
 "C13": ("Conic.from_points contains its five points (all real finite points, 32 normalisation paths), from_crossratio contains a, b, c, d and every point that sees them under the given cross ratio, from_lines/from_planes have the matrix g h^T + h g^T, Ellipse/Circle/Sphere matrices equal k * (Cartesian locus equation) with k != 0 for all centres/radii, radius/center/area/volume read back the parameters and the textbook measures. from_tangent/from_foci/Cone/Cylinder are not covered (sqrt towers / transcendental composition).", "4.13"),
 "C14": ("Symbolic symmetric matrices in 2D and 3D: tangent(at) = M.at contains at iff at lies on the quadric, pole/polar reciprocity, dual matrix = adj/det with flipped flag, dual.dual == self, is_tangent(h) <=> h^T adj(M) h == 0 with the lemma that tangent hyperplanes are tangent, dual/is_tangent work for Circle/Ellipse/Sphere; conic x line: every returned (complex) point lies on both, on all 41 arg-max/branch paths.", "4.14"),
 "C15": ("Conic.from_lines(g, h) for all distinct lines: is_degenerate and components == {g, h} as an unordered pair on all 30 paths (csqrt leaf either branch); from_planes is_degenerate; from_planes components and conic x conic only by bounded lattice stand-ins.", "4.15"),
 "C17": ("2D Polygon.area == |shoelace|/2 and centroid == area centroid for n = 3,4 (area n = 5) with arbitrary vertex representatives, invariance under roll/reversal on the real function, Simplex.volume (|det|/2 in the plane, Cayley-Menger branch for a triangle in 3-space), Segment.length, polytope == under roll/flip/rescaling (quadrilateral); RegularPolygon read-backs, 3D polygon / cuboid areas, circumcenter, midpoint by a bounded lattice stand-in.", "4.17"),
 "C18": ("SegmentTensor.intersect(Segment) in 2D: exactly one point iff the lines are not parallel and both parameters lie in [0,1], the point is the crossing, [] otherwise (modular: Segment.contains replaced by its verified contract); intersect(Line): one point iff the line separates the end points; utils.distinct exhaustively over every (also non-transitive) equality relation on <= 5 elements; polygon / polyhedron intersections by a bounded lattice stand-in.", "4.18"),
 "C04": ("Relational contract f(X)[k] ~ f(X[k]) with fully symbolic coordinates at collection shape (2,) (shapes (1,), (3,), (2,2) thorough) for join / meet in 2D and 3D with every single/collection mix tried, the vectorised coplanar-lines branch (256 arg-max paths each for meet and join), contains, is_parallel, parallel, transformation apply (collection*collection, collection*single, single*collection, lines), quadric contains / tangent; integer indexing, slicing and iteration of Point/Line/Plane/Segment/Quadric/Transformation collections give the element class with attributes (is_dual, _line). Bounded in the collection shape.", "4.4"),
 "C08": ("affine_transform / translation (coordinates or a Point with any representative) / scaling matrices and their action; rotation(t): counter-clockwise matrix, rotation(s)*rotation(t) == rotation(s+t), orthogonal with determinant 1 (trig leaf with addition formulas); rotation(t, axis) for EVERY axis direction: orthogonal, det 1, fixes the axis, trace 1 + 2cos t, additive about the same axis; reflection(line) for every finite line: equals the closed-form mirror image (hence agrees with h.mirror, C10), involution, fixes the mirror pointwise, reflection(infinity) = identity; Transformation.from_points in 2D maps each of the four source points to its target for all frames in general position. 3D reflection / from_points (QR / size) and from_points_and_conics are not covered.", "4.8"),
}
NA = {}
def bounded_by_property():
    """bounded stand-ins registered per property (read from the contract modules), so that the claimed level names them"""
    import subprocess
    code = ("import sys,json;sys.path[:0]=['/verif/.deps','/verif','/repo'];from gvc.worker import load_contracts;load_contracts();from gvc.harness import CASES;"
            "print('@@'+json.dumps({p:[dict(id=c.id,bound=getattr(c,'bound','')) for c in cs if c.kind=='bounded'] for p,cs in CASES.items()}))")
    out = subprocess.run(["/venv/bin/python", "-c", code], cwd=HERE, capture_output=True, text=True).stdout
    line = [l for l in out.splitlines() if l.startswith("@@")]
    return json.loads(line[0][2:]) if line else {}


def main():
    props = [json.loads(l) for l in open(os.path.join(HERE, "properties.jsonl"))]
    bounded = bounded_by_property()
    checks = []
    for p in props:
        pid = p["id"]
        if pid not in CLAIMED:
            continue
        text, ref = CLAIMED[pid]
        bs = bounded.get(pid, [])
        if bs:
            text += " BOUNDED stand-ins (native enumeration, reported under coverage.bounded, never counted as proved): " + "; ".join(
                "%s [%s]" % (b["id"].split("/", 1)[1], " ".join(b["bound"].split())[:260]) for b in bs) + "."
        checks.append(dict(
            property_id=pid,
            quick_cmd="./check %s --tier quick" % pid,
            thorough_cmd="./check %s --tier thorough" % pid,
            evidence_file="/verif/evidence/%s.json" % pid,
            replay_cmd_template="./check --replay {path}",
            engine="gvc",
            level_claimed=dict(category="proof", text=text, design_ref="DESIGN.md section " + ref),
            level_note=NOTE,
            technique="contract-based deductive verification: symbolic execution of the real functions against sidecar contracts, VCs discharged by exact algebra (normal form, span, Groebner), z3/cvc5 (QF_NRA) and finite enumeration",
        ))
    na = [dict(property_id=p["id"], reason=NA.get(p["id"], "contracts for this property are not built yet in this revision (work in progress, see DESIGN.md section 7)"))
          for p in props if p["id"] not in CLAIMED]
    m = dict(
        version=1,
        setup_cmd=SETUP,
        hooks=dict(guard="GEOMETER_VERIF", enable="none needed: all instrumentation is applied from /verif by rebinding module globals inside the checker process",
                   baseline_off_cmd="cd /repo && /venv/bin/python -m pytest -ra -q -p no:cacheprovider --timeout=900 --continue-on-collection-errors",
                   source_commits=[], add_only=True),
        engines=[dict(name="gvc", path="/verif/gvc", serves_properties=sorted(CLAIMED), kind_free_text="contract verifier: symbolic execution of the real geometer code over exact symbolic scalars + algebraic/SMT back ends")],
        checks=checks,
        not_applicable=na,
        notes="see DESIGN.md; known genuine defects are listed in known_findings.json",
    )
    with open(os.path.join(HERE, "MANIFEST.json"), "w") as f:
        json.dump(m, f, indent=1)
    import sys
    sys.path.insert(0, os.path.join(HERE, ".deps"))
    import jsonschema
    jsonschema.validate(m, json.load(open("/root/.vp/MANIFEST.schema.json")))
    print("MANIFEST ok:", len(checks), "checks,", len(na), "not applicable")
main()

#!/bin/bash
# run every registered quick check against /repo, refresh baselines + evidence; summary on stdout
cd /verif
for p in C01 C02 C03 C04 C05 C06 C07 C08 C09 C10 C11 C12 C13 C14 C15 C16 C17 C18 C19 C20; do
  ./check $p --record-baseline > /tmp/runall_$p.log 2>&1; rc=$?
  echo "$p rc=$rc $(grep -E "^C[0-9]+ tier" /tmp/runall_$p.log | cut -c1-170)"
  grep -E "^(VIOLATION|CHECKER|UNDECIDED)" /tmp/runall_$p.log | head -3 | cut -c1-220
done

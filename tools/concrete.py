"""developer helper / engine cross-check: run a case under the symbolic numpy proxy but with CONSTANT symbols
(values from a model), so every decision is concrete; prints ensures and exceptions.  Differences to the native
replay point at an engine modelling error."""
import sys, json, os, importlib, traceback
sys.path.insert(0,'/verif/.deps'); sys.path.insert(0,'/verif'); sys.path.insert(0, os.environ.get('GVC_REPO','/repo'))
from fractions import Fraction
from gvc import patch, sym as S
from gvc.sym import SymRing, Sym
from gvc.explore import Explorer
from gvc.harness import BY_ID, SymCtx, replay_case
for m in os.environ.get("MODS","c01").split(","): importlib.import_module('contracts.'+m)
cid=sys.argv[1]; model=json.loads(sys.argv[2])
case=BY_ID[cid]
patch.activate()
ring=SymRing(case.symbols, mode=case.mode, spare=case.spare)
class CC(SymCtx):
    def sym(self,name):
        v=model.get(name,0)
        if isinstance(v,list): return Sym.const(Fraction(v[0]))+Sym.const(Fraction(v[1]))*Sym(self.ring.I,self.ring.one)
        return Sym.const(Fraction(str(v)))
from gvc import prove
ex=Explorer(ring, oracle=prove.oracle_real() if case.mode=="real" else prove.oracle_field())
def h(e):
    ctx=CC(e,ring,case)
    return case.fn(ctx)
paths=ex.run(h)
for p in paths:
    print('path',p.id,p.outcome[0], p.outcome[1] if p.outcome[0]!='return' else '', 'pc',[repr(x)[:150] for x in p.pc])
    if p.outcome[0]=='raise': print(p.outcome[2][-1200:])
    for ob in p.obligations: print('  ',ob.name, ob.goal if ob.goal.op=='const' else repr(ob.goal)[:80])
print('native:', replay_case(cid, model))

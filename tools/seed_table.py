"""regenerate section 7 of DESIGN.md from /verif/seeded/*/meta.json"""
import json, glob, os, re
rows=[]
for d in sorted(glob.glob('/verif/seeded/*')):
    m=json.load(open(os.path.join(d,'meta.json')))
    desc=' '.join(m['description'].split())
    first=desc[:230]+('...' if len(desc)>230 else '')
    missed='MISSED' in m['caught_by']
    rows.append((os.path.basename(d), m['property'], first.replace('|','/'), m['caught_by'].replace('|','/'), 'initially missed' if missed else 'caught'))
txt="## 7. Which checks catch which seeded changes\n\nIndependently written changes (sub-agents that saw only the property text and a scratch worktree; each keeps the 126 tests green\nand comes with a failing demonstration; all confirmed with tools/seed_eval.sh by applying the patch to /repo, running the\nchecks and undoing it).  `seeded/<id>/` holds patch.diff, demo.py, meta.json.\n\n| seed | change (abridged) | caught by | first run |\n|---|---|---|---|\n"
for r in rows:
    txt+="| %s | %s | %s | %s |\n" % (r[0], r[2], r[3], r[4])
n=len(rows); miss=sum(1 for r in rows if r[4]!='caught')
txt+="\n%d seeded changes; %d were caught by the checks as they stood, %d were missed at first and led to the strengthening named in the row (every one is caught now).\nThe misses had three causes: (1) functions behind SVD/QR/transcendental leaves had no contract at all -> bounded lattice stand-ins were added; (2) effects outside the idealised arithmetic (tolerances, dtype truncation, magnitudes beyond 2^52) -> bounded numeric stand-ins; (3) case sets that did not enumerate a collection/single mix, a tier (3D case only in the thorough tier) or an operation sequence -> cases added.\n" % (n, n-miss, miss)
s=open('/verif/DESIGN.md').read()
i=s.index('## 7. Which checks catch which seeded changes')
open('/verif/DESIGN.md','w').write(s[:i]+txt)
print(n, miss)

"""regenerate section 7 of DESIGN.md from /verif/seeded/*/meta.json"""
import json, glob, os, re
rows=[]
for d in sorted(glob.glob('/verif/seeded/*')):
    m=json.load(open(os.path.join(d,'meta.json')))
    desc=' '.join(m['description'].split())
    first=desc[:230]+('...' if len(desc)>230 else '')
    missed='MISSED' in m['caught_by'] or 'Initially only' in m['caught_by']
    rows.append((os.path.basename(d), m['property'], first.replace('|','/'), m['caught_by'].replace('|','/'), 'initially missed' if missed else 'caught'))
txt="## 7. Which checks catch which seeded changes\n\nIndependently written changes (sub-agents that saw only the property text and a scratch worktree; each keeps the 126 tests green\nand comes with a failing demonstration; all confirmed with tools/seed_eval.sh by applying the patch to /repo, running the\nchecks and undoing it).  `seeded/<id>/` holds patch.diff, demo.py, meta.json.  A patch applies to the /repo tree at the time of its evaluation; later `fix:` commits have touched some of the same lines (patches that had to be re-based say so).\n\n| seed | change (abridged) | caught by | first run |\n|---|---|---|---|\n"
for r in rows:
    txt+="| %s | %s | %s | %s |\n" % (r[0], r[2], r[3], r[4])
n=len(rows); miss=sum(1 for r in rows if r[4]!='caught')
txt+="\nFive rounds (meta.json `round`; round 1 = ids -1, -2): round 1 against the pinned tree plus the first fixes; round 2 against the tree after 22 fixes, with the instruction to prefer rarely exercised paths (collections, 3D, degenerate positions, subclasses, shared helpers); round 3 against the tree after 30 fixes, asking for unusual argument forms, rarely taken branches, call sequences / stored state and index arithmetic; round 4 against the tree after 32 fixes, asking for result classes, complex / integer dtypes, tolerance parameters, cooperating edits, error paths and copy/view semantics; round 5 against the tree after 34 fixes with the ORIGINAL unguided prompt, as a final measurement: of its 40 changes 24 repeated earlier ones (caught), 12 of the 16 new ones were caught by the checks as they stood and 4 were missed (90% / 75%).  Rounds 2-5 produced about 70 near-duplicates of earlier changes, which were not evaluated again, and several remarks about the CLEAN tree that turned out to be genuine defects (section 6).\n"
txt+="\n%d seeded changes; %d were caught by the checks as they stood, %d were missed at first and led to the strengthening named in the row (every one is caught now).\nThe misses had four causes: (1) functions behind SVD/QR/transcendental leaves had no contract at all -> bounded lattice stand-ins were added; (2) effects outside the idealised arithmetic (tolerances, dtype truncation, magnitudes beyond 2^52) -> bounded numeric stand-ins; (3) case sets that did not enumerate a collection/single mix, a collection SHAPE, a tier (3D case only in the thorough tier), an operation sequence (caches, state computed before a transformation) or a non-default homogeneous representative -> cases added; (4) a precondition copied from the code instead of the property (is_collinear with coincident first points) -> contract rewritten.  The miss rate did not fall from round to round because each round was pointed at a class of behaviour the previous checks did not model (collection shapes, call sequences, dtypes and tolerances); what fell is the number of such classes left.\n" % (n, n-miss, miss)
s=open('/verif/DESIGN.md').read()
i=s.index('## 7. Which checks catch which seeded changes')
open('/verif/DESIGN.md','w').write(s[:i]+txt)
print(n, miss)

#!/bin/bash
# usage: tools/seed_eval.sh /tmp/seed_C12 1 "C12 C17"   -> applies patch1.diff to /repo, confirms tests+demo, runs the checks, undoes it
D=$1; N=$2; PROPS=$3
cd /repo && git checkout -q -- . && git apply $D/patch$N.diff || { echo "APPLY FAILED"; exit 9; }
echo "--- tests with change:"; (cd /repo && /venv/bin/python -m pytest -q -p no:cacheprovider 2>&1 | tail -1)
echo "--- demo with change (expect exit 1):"; (mkdir -p /tmp/demo_run && cp $D/demo$N.py /tmp/demo_run/demo.py && cd /repo && /venv/bin/python /tmp/demo_run/demo.py > /tmp/demo_out.txt 2>&1; echo "exit=$?"; tail -2 /tmp/demo_out.txt | cut -c1-200)
for P in $PROPS; do echo "--- check $P:"; (cd /verif && GVC_XCHECK=0 ./check $P 2>&1 | grep -E "^(VIOLATION|  obligation|  frame|  native|C[0-9]+ tier|UNDECIDED|CHECKER|KNOWN)" | cut -c1-260 | head -8); done
cd /repo && git checkout -q -- . 
echo "--- demo without change (expect exit 0):"; (cp $D/demo$N.py /tmp/demo_run/demo.py && cd /repo && /venv/bin/python /tmp/demo_run/demo.py > /tmp/demo_out.txt 2>&1; echo "exit=$?")
git -C /repo status --short | head -3

"""developer helper: run bounded cases natively (REPO env selects the tree) and print clause counts / first failing witness"""
import sys, os, importlib
sys.path.insert(0, '/verif/.deps'); sys.path.insert(0, '/verif'); sys.path.insert(0, os.environ.get("REPO", "/repo"))
from gvc.harness import run_bounded, BY_ID
for m in os.environ.get("MODS", "c04").split(","):
    importlib.import_module('contracts.' + m)
for cid in sys.argv[1:]:
    for c in [c for c in BY_ID if cid in c and BY_ID[c].kind == "bounded"]:
        r = run_bounded(c)
        bad = [o for o in r["obligations"] if o["status"] != "proved"]
        print(c, "clauses", len(r["obligations"]), "failing", len(bad), "%.1fs" % r["wall_s"], (r["error"] or "")[-400:])
        for o in bad[: int(os.environ.get("SHOW", "8"))]:
            print("   ", o["name"], o["detail"], (o["witness"] or "")[:300])

#!/bin/bash
# usage: tools/seed_keep.sh /tmp/seed_C12 1 C12 "caught-by text"
D=$1; N=$2; P=$3; CAUGHT=$4
T=/verif/seeded/$P-$N
mkdir -p $T; cp $D/patch$N.diff $T/patch.diff; cp $D/demo$N.py $T/demo.py
python3 - "$D/meta$N.txt" "$T/meta.json" "$P" "$CAUGHT" <<'PY'
import sys, json
txt=open(sys.argv[1]).read()
json.dump(dict(property=sys.argv[3], description=txt, confirmed="applied to /repo with `git apply`: 126 tests pass, demo.py exits 1; after `git checkout -- .` demo.py exits 0 (tools/seed_eval.sh)", caught_by=sys.argv[4]), open(sys.argv[2],'w'), indent=1)
PY
echo kept $T

#!/bin/bash
# usage: tools/seed_keep2.sh /tmp/seed2_C12 1 C12 C12-3 "caught-by text"     (source dir, patch number, property, target id)
D=$1; N=$2; P=$3; ID=$4; CAUGHT=$5
T=/verif/seeded/$ID
mkdir -p $T; cp $D/patch$N.diff $T/patch.diff; cp $D/demo$N.py $T/demo.py
python3 - "$D/meta$N.txt" "$T/meta.json" "$P" "$CAUGHT" <<'PY'
import sys, json
txt=open(sys.argv[1]).read()
json.dump(dict(property=sys.argv[3], round=2, description=txt, confirmed="applied to /repo with `git apply`: 126 tests pass, demo.py exits 1; after `git checkout -- .` demo.py exits 0 (tools/seed_eval.sh)", caught_by=sys.argv[4]), open(sys.argv[2],'w'), indent=1)
PY
echo kept $T

#!/bin/bash
cd /verif
for p in "$@"; do
  GVC_XCHECK=0 ./check $p --tier thorough > /tmp/thor_$p.log 2>&1; rc=$?
  echo "$p rc=$rc $(grep -E "^C[0-9]+ tier" /tmp/thor_$p.log | cut -c1-170)"
  grep -E "^(VIOLATION|CHECKER|UNDECIDED)" /tmp/thor_$p.log | head -4 | cut -c1-220
done

#!/bin/bash
# usage: tools/mut.sh "<python edit code>" "<props>"   -- applies an edit to the scratch worktree /tmp/mut and runs checks against it
git -C /tmp/mut checkout -q -- .
python3 -c "$1"
(cd /tmp/mut && /venv/bin/python -m pytest -q -p no:cacheprovider -x 2>&1 | tail -1)
for P in $2; do GVC_REPO=/tmp/mut /verif/check $P | grep -E "^(VIOLATION|C[0-9]|UNDEC|CHECKER|KNOWN)" | head -${3:-5}; done
git -C /tmp/mut checkout -q -- .

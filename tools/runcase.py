"""developer helper: run one or more cases in-process and print a summary"""
import sys, time, faulthandler, importlib, os
sys.path.insert(0,'/verif/.deps'); sys.path.insert(0,'/verif'); sys.path.insert(0, os.environ.get('REPO','/repo'))
limit = int(os.environ.get("LIMIT", "120"))
faulthandler.dump_traceback_later(limit, exit=True)
from gvc.harness import run_case, CASES, BY_ID
for m in os.environ.get("MODS", "c01").split(","):
    importlib.import_module('contracts.'+m)
for cid in sys.argv[1:]:
    ids = [c for c in BY_ID if cid in c]
    for c in ids:
        t=time.time()
        r=run_case(c, timeout_scale=float(os.environ.get("SCALE","1")))
        st={}
        for o in r['obligations']: st[o['status']]=st.get(o['status'],0)+1
        print(c, 'paths',r['paths'], st, 'gaps',len(r['gaps']), (r['error'] or '')[-600:], '%.1fs'%(time.time()-t), r.get('stats'), flush=True)
        shown=0
        for o in r['obligations']:
            if o['status']!='proved' and shown < int(os.environ.get("SHOW","3")):
                shown+=1
                print('   ',o['name'],'path',o['path'],o['status'],o['backend'],o['detail'][:300],o['exception'], str(o['model'])[:300], '\n      goal:', o['goal'][:160], '\n      pc:', [x[:100] for x in o['pc'][-3:]])
        for g in r['gaps'][:3]: print('   GAP',g)

"""Spec functions written from textbook formulas, independent of geometer (plain Python over any
ring-like scalars: Sym, Fraction, float).  Used on the specification side of the contracts."""
from __future__ import annotations

import itertools

import numpy as _np


def perm_sign(p):
    p = list(p)
    s = 1
    for i in range(len(p)):
        for j in range(i + 1, len(p)):
            if p[i] > p[j]:
                s = -s
            elif p[i] == p[j]:
                return 0
    return s


def eps(*idx):
    return perm_sign(idx)


def dot(a, b):
    a, b = list(a), list(b)
    assert len(a) == len(b)
    t = 0
    for x, y in zip(a, b):
        t = t + x * y
    return t


def det(m):
    m = [list(r) for r in m]
    n = len(m)
    if n == 1:
        return m[0][0]
    if n == 2:
        return m[0][0] * m[1][1] - m[0][1] * m[1][0]
    t = 0
    for j in range(n):
        sub = [r[:j] + r[j + 1 :] for r in m[1:]]
        c = m[0][j] * det(sub)
        t = t + c if j % 2 == 0 else t - c
    return t


def cross(a, b):
    return [a[1] * b[2] - a[2] * b[1], a[2] * b[0] - a[0] * b[2], a[0] * b[1] - a[1] * b[0]]


def maximal_minors(rows):
    """all maximal minors of a k x n matrix (k <= n)"""
    rows = [list(r) for r in rows]
    k, n = len(rows), len(rows[0])
    return [det([[r[c] for c in cols] for r in rows]) for cols in itertools.combinations(range(n), k)]


def line3_from_points(p, q):
    """contravariant (dual Pluecker) matrix of the line pq in P^3: L^{kl} = sum_ij eps^{ijkl} p_i q_j"""
    L = [[0] * 4 for _ in range(4)]
    for k in range(4):
        for l in range(4):
            if k == l:
                continue
            a, b = [i for i in range(4) if i not in (k, l)]
            s = perm_sign((a, b, k, l))
            L[k][l] = s * (p[a] * q[b] - p[b] * q[a])
    return L


def line3_from_planes(e, f):
    """contravariant matrix of the line of intersection of two planes: L^{kl} = e^k f^l - e^l f^k"""
    return [[e[k] * f[l] - e[l] * f[k] for l in range(4)] for k in range(4)]


def line3_cov_from_points(p, q):
    """covariant (primal Pluecker) matrix p^q"""
    return [[p[k] * q[l] - p[l] * q[k] for l in range(4)] for k in range(4)]


def plane_from_points(p, q, r):
    """plane through three points of P^3 by signed 3x3 minors: h^l = sum eps^{ijkl} p_i q_j r_k"""
    h = []
    for l in range(4):
        cols = [c for c in range(4) if c != l]
        m = det([[v[c] for c in cols] for v in (p, q, r)])
        # eps^{ijkl} with l last: sign = perm_sign(cols + [l])
        h.append(perm_sign(cols + [l]) * m)
    return h


def line_contains_point(L, x):
    """contravariant 4x4 line tensor L contains point x: sum_k x_k L^{kl} == 0 for all l -> list of the 4 sums"""
    return [dot([L[k][l] for k in range(4)], x) for l in range(4)]


def cov_of_contra(L):
    """covariant tensor of a contravariant line tensor: C_{ij} = sum_{k,l} eps_{klij} L^{kl}  (the code's convention:
    TensorDiagram((e, L), (e, L)) contracts the first two indices of eps)"""
    C = [[0] * 4 for _ in range(4)]
    for i in range(4):
        for j in range(4):
            t = 0
            for k in range(4):
                for l in range(4):
                    s = perm_sign((k, l, i, j))
                    if s:
                        t = t + s * L[k][l]
            C[i][j] = t
    return C


def plane_contains_line(h, L):
    """plane h contains the contravariant line L  <=>  sum_i h^i C_{ij} == 0 for all j with C the covariant tensor"""
    C = cov_of_contra(L)
    return [dot([C[i][j] for i in range(4)], h) for j in range(4)]


def is_antisymmetric(L):
    return [L[i][j] + L[j][i] for i in range(4) for j in range(i, 4)]


def pluecker_relation(L):
    return L[0][1] * L[2][3] - L[0][2] * L[1][3] + L[0][3] * L[1][2]


def tolist(a):
    if hasattr(a, "array"):
        a = a.array
    a = _np.asarray(a)
    return a.view(_np.ndarray).tolist() if isinstance(a, _np.ndarray) else a


def matmul(A, B):
    return [[dot(r, [B[k][j] for k in range(len(B))]) for j in range(len(B[0]))] for r in A]


def matvec(A, v):
    return [dot(r, v) for r in A]


def transpose(A):
    return [list(r) for r in zip(*A)]


def adjugate(m):
    n = len(m)
    out = [[0] * n for _ in range(n)]
    for i in range(n):
        for j in range(n):
            sub = [[m[r][c] for c in range(n) if c != i] for r in range(n) if r != j]
            d = det(sub) if n > 1 else 1
            out[i][j] = d if (i + j) % 2 == 0 else -d
    return out


def identity(n):
    return [[1 if i == j else 0 for j in range(n)] for i in range(n)]

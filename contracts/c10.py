"""C10: perpendicular / parallel / project / mirror constructions, Cartesian predicates, bases (2D, real mode)."""
from __future__ import annotations

import itertools

import numpy as np

from gvc.harness import case, names
from contracts import geo
from contracts.geo import dot, tolist

FL = ["geometer.point.LineTensor.perpendicular", "geometer.point.LineTensor.mirror", "geometer.point.SubspaceTensor.parallel",
      "geometer.point.SubspaceTensor.project", "geometer.point.SubspaceTensor.contains", "geometer.point._join_meet_duality"]


def _g():
    import geometer
    import geometer.operators as go

    return geometer, go


def _finite_line(ctx, l):
    ctx.assume(ctx.neg(ctx.conj([ctx.zero(l[0]), ctx.zero(l[1])])))


def _cz(ctx, x, ref):
    """zero test of a possibly complex-scaled quantity"""
    return ctx.zero(x, scale=None if ctx.symbolic else ref)


def _line_constructions(which):
    @case("C10", "line.%s.2d" % which, names("l", 3) + names("p", 3), mode="real", functions=FL, timeout=120, max_paths=200, explore_time=900)
    def _(ctx):
        geometer, go = _g()
        l, p = ctx.vec("l", 3), ctx.vec("p", 3)
        _finite_line(ctx, l)
        ctx.assume(ctx.neg(ctx.zero(p[2])))
        L, P = geometer.Line(l), geometer.Point(p)
        ll, pp = tolist(l), tolist(p)
        sc = None if ctx.symbolic else 1.0
        with ctx.stubs():
            if which == "perpendicular":
                m = L.perpendicular(P)
                mm = tolist(m.array)
                ctx.ensure("kind", isinstance(m, geometer.Line) and tuple(m.shape) == (3,))
                ctx.ensure("through-p", ctx.zero(dot(mm, pp), scale=sc))
                ctx.ensure("normals-orthogonal", ctx.zero(mm[0] * ll[0] + mm[1] * ll[1], scale=sc))
                ctx.ensure("is-a-line", ctx.neg(ctx.conj([ctx.zero(mm[0], scale=sc), ctx.zero(mm[1], scale=sc)])))
            elif which == "parallel":
                m = L.parallel(P)
                mm = tolist(m.array)
                ctx.ensure("kind", isinstance(m, geometer.Line) and tuple(m.shape) == (3,))
                ctx.ensure("through-p", ctx.zero(dot(mm, pp), scale=sc))
                ctx.ensure("normals-parallel", ctx.zero(mm[0] * ll[1] - mm[1] * ll[0], scale=sc))
                ctx.ensure("is-a-line", ctx.neg(ctx.conj([ctx.zero(mm[0], scale=sc), ctx.zero(mm[1], scale=sc)])))
            elif which == "project":
                x = L.project(P)
                xx = tolist(x.array)
                ctx.ensure("kind", isinstance(x, geometer.Point) and tuple(x.shape) == (3,))
                ctx.ensure("on-the-line", ctx.zero(dot(ll, xx), scale=sc))
                # p - x is parallel to the normal (l0, l1):  (p/pz - x/xz) x n == 0
                dx = pp[0] * xx[2] - xx[0] * pp[2]
                dy = pp[1] * xx[2] - xx[1] * pp[2]
                ctx.ensure("foot-of-the-perpendicular", ctx.zero(dx * ll[1] - dy * ll[0], scale=sc))
                ctx.ensure("finite", ctx.neg(ctx.zero(xx[2], scale=sc)))
            elif which == "mirror":
                x = L.mirror(P)
                xx = tolist(x.array)
                ctx.ensure("kind", isinstance(x, geometer.Point) and tuple(x.shape) == (3,))
                ctx.ensure("finite", ctx.neg(ctx.zero(xx[2], scale=sc)))
                # midpoint of p and its mirror image lies on l, and p - x is parallel to the normal
                mx = pp[0] * xx[2] + xx[0] * pp[2]
                my = pp[1] * xx[2] + xx[1] * pp[2]
                mz = 2 * pp[2] * xx[2]
                ctx.ensure("midpoint-on-the-line", ctx.zero(ll[0] * mx + ll[1] * my + ll[2] * mz, scale=sc))
                dx = pp[0] * xx[2] - xx[0] * pp[2]
                dy = pp[1] * xx[2] - xx[1] * pp[2]
                ctx.ensure("connecting-line-perpendicular", ctx.zero(dx * ll[1] - dy * ll[0], scale=sc))
                # closed form: x = p - 2 (l.p)/(|n|^2 pz) n   (=> involution)
                nn = ll[0] ** 2 + ll[1] ** 2
                lp = dot(ll, pp)
                spec = [pp[0] * nn - 2 * lp * ll[0], pp[1] * nn - 2 * lp * ll[1], pp[2] * nn]
                ctx.ensure("closed-form-reflection", ctx.minors_zero(xx, spec))


for _w in ("perpendicular", "parallel", "project", "mirror"):
    _line_constructions(_w)


@case("C10", "predicates.lines.2d", names("l", 3) + names("m", 3), mode="real",
      functions=["geometer.operators.is_perpendicular", "geometer.point.SubspaceTensor.is_parallel", "geometer.operators.crossratio"], timeout=120, max_paths=200)
def predicates_lines(ctx):
    geometer, go = _g()
    l, m = ctx.vec("l", 3), ctx.vec("m", 3)
    _finite_line(ctx, l)
    _finite_line(ctx, m)
    ctx.assume(ctx.neg(ctx.minors_zero(l, m)))
    L, M = geometer.Line(l), geometer.Line(m)
    with ctx.stubs():
        par = L.is_parallel(M)
    ctx.ensure("is_parallel<=>normals-proportional", ctx.iff(ctx.conj([par]) if ctx.symbolic else bool(par), ctx.zero(l[0] * m[1] - l[1] * m[0])))
    with ctx.stubs():
        perp = go.is_perpendicular(L, M)
    ctx.ensure("is_perpendicular<=>normals-orthogonal", ctx.iff(ctx.conj([perp]) if ctx.symbolic else bool(perp), ctx.zero(l[0] * m[0] + l[1] * m[1])))


@case("C10", "predicates.points.2d", names("a", 3) + names("b", 3) + names("c", 3) + names("d", 3), mode="field",
      functions=["geometer.operators.is_coplanar"], timeout=120, max_paths=400)
def predicates_points(ctx):
    geometer, go = _g()
    a, b, c, d = (ctx.vec(k, 3) for k in "abcd")
    A, B, C, D = (geometer.Point(v) for v in (a, b, c, d))
    with ctx.stubs():
        r3 = go.is_collinear(A, B, C)
    det3 = lambda x, y, z: geo.det([tolist(x), tolist(y), tolist(z)])
    ctx.ensure("is_collinear(3)<=>det=0", ctx.iff(ctx.conj([r3]) if ctx.symbolic else bool(r3), ctx.zero(det3(a, b, c))))
    # no requirement on the first two points: coincident a, b (also the same object) must not make every d "collinear"
    all_minors = ctx.conj([ctx.zero(det3(*t)) for t in itertools.combinations((a, b, c, d), 3)])
    with ctx.stubs():
        r4 = go.is_collinear(A, B, C, D)
    ctx.ensure("is_collinear(4)<=>rank<=2", ctx.iff(ctx.conj([r4]) if ctx.symbolic else bool(r4), all_minors))
    LA, LB, LC, LD = (geometer.Line(v) for v in (a, b, c, d))
    with ctx.stubs():
        r4 = go.is_concurrent(LA, LB, LC, LD)
    ctx.ensure("is_concurrent(4)<=>rank<=2", ctx.iff(ctx.conj([r4]) if ctx.symbolic else bool(r4), all_minors))
    with ctx.stubs():
        try:
            r4 = go.is_collinear(A, A, C, D)
            ctx.ensure("is_collinear(a,a,c,d):same-object<=>a,c,d-collinear", ctx.iff(ctx.conj([r4]) if ctx.symbolic else bool(r4), ctx.zero(det3(a, c, d))))
        except geometer.exceptions.GeometryException as e:
            ctx.ensure("is_collinear(a,a,c,d):same-object<=>a,c,d-collinear", False, got=type(e).__name__)


@case("C10", "predicates.points.3d", names("a", 4) + names("b", 4) + names("c", 4) + names("d", 4) + names("e", 4), mode="field",
      functions=["geometer.operators.is_coplanar"], timeout=120, max_paths=400)
def predicates_points_3d(ctx):
    """five points of 3-space are coplanar iff their 5x4 coordinate matrix has rank <= 3 (all five 4x4 minors vanish)"""
    geometer, go = _g()
    vs = [ctx.vec(k, 4) for k in "abcde"]
    P = [geometer.Point(v) for v in vs]
    det4 = lambda *rows: geo.det([tolist(x) for x in rows])
    with ctx.stubs():
        r4 = go.is_coplanar(*P[:4])
    ctx.ensure("is_coplanar(4)<=>det=0", ctx.iff(ctx.conj([r4]) if ctx.symbolic else bool(r4), ctx.zero(det4(*vs[:4]))))
    with ctx.stubs():
        r5 = go.is_coplanar(*P)
    ctx.ensure("is_coplanar(5)<=>rank<=3", ctx.iff(ctx.conj([r5]) if ctx.symbolic else bool(r5), ctx.conj([ctx.zero(det4(*t)) for t in itertools.combinations(vs, 4)])))


@case("C10", "is_cocircular.2d", names("a", 2) + names("b", 2) + names("c", 2) + names("d", 2), mode="real",
      functions=["geometer.operators.is_cocircular", "geometer.operators.crossratio"], timeout=180, max_paths=400)
def cocircular(ctx):
    """four finite points (x, y, 1): cocircular (or collinear) <=> det[[x^2+y^2, x, y, 1]] == 0"""
    geometer, go = _g()
    pts = [ctx.vec(k, 2) for k in "abcd"]
    P = [geometer.Point(np.append(v, [1])) for v in pts]
    # requires: pairwise distinct and no three collinear (the cross ratios from I and J are defined)
    H = [tolist(p.array) for p in P]
    for i, j, k in itertools.combinations(range(4), 3):
        ctx.assume(ctx.neg(ctx.zero(geo.det([H[i], H[j], H[k]]))))
    with ctx.stubs():
        r = go.is_cocircular(*P)
    circ = geo.det([[v[0] * v[0] + v[1] * v[1], v[0], v[1], 1] for v in (tolist(x) for x in pts)])
    ctx.ensure("is_cocircular<=>circle-determinant=0", ctx.iff(ctx.conj([r]) if ctx.symbolic else bool(r), ctx.zero(circ)))


@case("C10", "line.points.2d", names("l", 3), mode="real",
      functions=["geometer.point.LineTensor.base_point", "geometer.point.LineTensor.direction", "geometer.point.LineTensor.basis_matrix", "geometer.point.SubspaceTensor.general_point"],
      timeout=120, max_paths=200)
def line_points(ctx):
    geometer, go = _g()
    l = ctx.vec("l", 3)
    ctx.assume(ctx.neg(ctx.all_zero(l)))
    L = geometer.Line(l)
    ll = tolist(l)
    finite = ctx.neg(ctx.conj([ctx.zero(l[0]), ctx.zero(l[1])]))
    with ctx.stubs():
        bp = L.base_point
    b = tolist(bp.array)
    ctx.ensure("base_point-on-the-line", ctx.zero(dot(ll, b)))
    ctx.ensure("base_point-nonzero", ctx.neg(ctx.all_zero(bp.array)))
    ctx.ensure("base_point-finite-for-finite-lines", ctx.implies(finite, ctx.neg(ctx.zero(b[2]))))
    with ctx.stubs():
        dr = L.direction
    d = tolist(dr.array)
    ctx.ensure("direction-on-the-line", ctx.zero(dot(ll, d)))
    ctx.ensure("direction-at-infinity", ctx.zero(d[2]))
    ctx.ensure("direction-nonzero", ctx.neg(ctx.all_zero(dr.array)))
    with ctx.stubs():
        gp = L.general_point
    ctx.ensure("general_point-not-on-the-line", ctx.neg(ctx.zero(dot(ll, tolist(gp.array)))))
    with ctx.stubs():
        bm = L.basis_matrix
    r0, r1 = tolist(bm[0]), tolist(bm[1])
    sc = None if ctx.symbolic else 1.0
    ctx.ensure("basis_matrix-rows-on-the-line", ctx.conj([ctx.zero(dot(ll, r0), scale=sc), ctx.zero(dot(ll, r1), scale=sc)]))
    ctx.ensure("basis_matrix-rows-orthonormal", ctx.conj([ctx.zero(dot(r0, r0) - 1, scale=sc), ctx.zero(dot(r1, r1) - 1, scale=sc), ctx.zero(dot(r0, r1), scale=sc)]))


@case("C10", "plane.constructions.3d", names("e", 4) + names("p", 4), mode="field",
      functions=["geometer.point.PlaneTensor.perpendicular", "geometer.point.SubspaceTensor.parallel", "geometer.point.SubspaceTensor.project",
                 "geometer.point._join_meet_duality"], timeout=120, max_paths=200)
def plane_constructions(ctx):
    from contracts.c01 import on_line3, on_hyper

    geometer, go = _g()
    e, p = ctx.vec("e", 4), ctx.vec("p", 4)
    n = [e[0], e[1], e[2]]
    nn = n[0] * n[0] + n[1] * n[1] + n[2] * n[2]
    ctx.assume(ctx.neg(ctx.zero(nn)))  # a finite, non-isotropic plane (real planes: n != 0)
    ctx.assume(ctx.neg(ctx.zero(p[3])))
    E, P = geometer.Plane(e), geometer.Point(p)
    ninf = n + [0]
    with ctx.stubs():
        m = E.perpendicular(P)
    ctx.ensure("perpendicular:line-through-p", on_line3(ctx, m.array, p))
    ctx.ensure("perpendicular:direction-is-the-normal", on_line3(ctx, m.array, ninf))
    ctx.ensure("perpendicular:kind", isinstance(m, geometer.Line) and tuple(m.shape) == (4, 4))
    with ctx.stubs():
        f = E.parallel(P)
    ff = tolist(f.array)
    ctx.ensure("parallel:plane-through-p", ctx.zero(dot(ff, tolist(p))))
    ctx.ensure("parallel:same-normal", ctx.conj([ctx.minors_zero(ff[:3], n), ctx.neg(ctx.all_zero(ff[:3]))]))
    with ctx.stubs():
        x = E.project(P)
    xx, pp = tolist(x.array), tolist(p)
    ctx.ensure("project:on-the-plane", ctx.zero(dot(tolist(e), xx)))
    d = [pp[i] * xx[3] - xx[i] * pp[3] for i in range(3)]
    ctx.ensure("project:foot-of-the-perpendicular", ctx.minors_zero(d, n) if ctx.symbolic else ctx.minors_zero(d, n))
    ctx.ensure("project:finite", ctx.neg(ctx.zero(xx[3])))


@case("C10", "angle_bisectors.2d", names("l", 3) + names("m", 3), mode="field", functions=["geometer.operators.angle_bisectors"], timeout=180, max_paths=200,
      tier="experimental")
def angle_bisectors(ctx):
    """two lines through the vertex, mutually perpendicular, each making equal angles with l and m (reflection at the
    bisector swaps the directions of l and m)"""
    geometer, go = _g()
    l, m = ctx.vec("l", 3), ctx.vec("m", 3)
    ctx.assume(ctx.neg(ctx.minors_zero(l, m)))
    L, M = geometer.Line(l), geometer.Line(m)
    with ctx.stubs():
        r, s = go.angle_bisectors(L, M)
    v = geo.cross(tolist(l), tolist(m))
    rr, ss = tolist(r.array), tolist(s.array)
    ctx.ensure("through-the-vertex", ctx.conj([ctx.zero(dot(rr, v)), ctx.zero(dot(ss, v))]))
    ctx.ensure("mutually-perpendicular", ctx.zero(rr[0] * ss[0] + rr[1] * ss[1]))


@case("C10", "constructions.3d.lattice", [], kind="bounded",
      functions=["geometer.point.LineTensor.perpendicular", "geometer.point.LineTensor.mirror", "geometer.point.SubspaceTensor.project", "geometer.point.PlaneTensor.mirror",
                 "geometer.point.PlaneTensor.basis_matrix", "geometer.point.SubspaceTensor.basis_matrix", "geometer.operators.is_perpendicular", "geometer.point.LineTensor.base_point"],
      bound="3D: 10 lattice lines x 8 points (on and off the line) at 3 translated positions, 8 planes x 8 points, pairs of lines/planes with known (non-)orthogonal directions; "
            "basis_matrix of 12 planes / 10 lines")
def constructions_3d_lattice(ctx):
    import geometer as g
    from geometer.operators import is_perpendicular, dist

    def unit(v):
        v = np.asarray(v, dtype=float)
        return v / np.linalg.norm(v)

    def aff(p):
        a = np.real_if_close(np.asarray(p.normalized_array, dtype=complex))
        return np.real(a[:3])

    dirs = [(1, 0, 0), (0, 1, 0), (1, 1, 0), (1, 1, 1), (1, -2, 2), (0, 3, 4), (2, 1, -1), (1, 2, 3), (-1, 1, 2), (3, 0, -1)]
    offs = [(0, 0, 0), (3, -7, 2), (0, 0, 5)]
    pts = [(1, 2, 3), (0, 0, 1), (-2, 1, 0), (4, 4, 4), (1, 0, -1), (0.5, 2, -3), (2, 2, 1), (-1, -1, 5)]
    for d in dirs:
        for o in offs:
            l = g.Line(g.Point(*o), g.Point(*[x + y for x, y in zip(o, d)]))
            u = unit(d)
            bp = l.base_point
            ctx.ensure("3d:base_point-on-the-line-and-finite", bool(l.contains(bp)) and abs(bp.array[-1]) > 1e-9, witness=dict(origin=o, direction=d))
            bm = l.basis_matrix
            ctx.ensure("3d:line-basis_matrix-orthonormal-rows-on-the-line", np.allclose(bm @ bm.T, np.eye(2), atol=1e-8) and all(bool(l.contains(g.Point(r))) for r in bm),
                       witness=dict(origin=o, direction=d))
            for p in pts:
                P = g.Point(*p)
                w = dict(origin=o, direction=d, point=p)
                foot = np.array(o) + u * np.dot(np.array(p) - np.array(o), u)
                on = np.linalg.norm(foot - np.array(p)) < 1e-9
                pr = l.project(P)
                ctx.ensure("3d:line-project-is-the-foot", np.allclose(aff(pr), foot, atol=1e-6), witness=dict(w, got=aff(pr).tolist(), want=foot.tolist()))
                if not on:
                    m = l.mirror(P)
                    ctx.ensure("3d:line-mirror-is-the-point-reflection-at-the-foot", np.allclose(aff(m), 2 * foot - np.array(p), atol=1e-6),
                               witness=dict(w, got=aff(m).tolist(), want=(2 * foot - np.array(p)).tolist()))
                    pe = l.perpendicular(P)
                    dd = aff(pe.meet(g.infty_plane)) if False else None
                    q1 = pe.meet(l)
                    ctx.ensure("3d:line-perpendicular-through-p-meets-the-line-at-the-foot", bool(pe.contains(P)) and np.allclose(aff(q1), foot, atol=1e-6), witness=w)
    planes = [(0, 0, 1, -1), (1, 0, 0, 2), (1, 1, 0, 0), (1, 2, 2, -30), (1, -1, 2, 5), (2, 1, 2, -3), (0, 3, 4, 10), (1, 1, 1, -6), (3, 0, 4, 1), (1, 2, 3, 4), (-1, 0, 1, 7), (2, -2, 1, 0)]
    for e in planes:
        E = g.Plane(*e)
        n = np.array(e[:3], dtype=float)
        bm = E.basis_matrix
        ctx.ensure("3d:plane-basis_matrix-orthonormal-rows-in-the-plane", np.allclose(bm @ bm.T, np.eye(3), atol=1e-8) and np.allclose(bm @ np.array(e, dtype=float), 0, atol=1e-8),
                   witness=dict(plane=e, got=bm.tolist()))
        for p in pts:
            P = g.Point(*p)
            s = (np.dot(n, p) + e[3]) / np.dot(n, n)
            foot = np.array(p) - s * n
            ctx.ensure("3d:plane-project-is-the-foot", np.allclose(aff(E.project(P)), foot, atol=1e-6), witness=dict(plane=e, point=p))
            if abs(s) > 1e-9:
                ctx.ensure("3d:plane-mirror", np.allclose(aff(E.mirror(P)), np.array(p) - 2 * s * n, atol=1e-6), witness=dict(plane=e, point=p, got=aff(E.mirror(P)).tolist()))
    for d1, d2 in itertools.combinations(dirs, 2):
        want = abs(np.dot(d1, d2)) < 1e-12
        for o in offs:
            l1 = g.Line(g.Point(*o), g.Point(*[x + y for x, y in zip(o, d1)]))
            l2 = g.Line(g.Point(*o), g.Point(*[x + y for x, y in zip(o, d2)]))
            ctx.ensure("3d:is_perpendicular(lines)", bool(is_perpendicular(l1, l2)) == want, witness=dict(origin=o, d1=d1, d2=d2, want=want))
        ctx.ensure("3d:is_perpendicular(planes)", bool(is_perpendicular(g.Plane(*d1, 1), g.Plane(*d2, -4))) == want, witness=dict(n1=d1, n2=d2, want=want))
    # two parallel (distinct) planes are not perpendicular: the predicate has to say so
    for n_ in ((1, 2, 2), (0, 0, 1), (1, -1, 0)):
        for (c1, c2, f) in ((-3, 1, 2), (0, 5, -1), (2, 3, 1)):
            try:
                got = bool(is_perpendicular(g.Plane(*n_, c1), g.Plane(*[f * x for x in n_], c2)))
            except Exception as ex:
                got = "%s" % type(ex).__name__
            ctx.ensure("3d:is_perpendicular(parallel-planes)-is-False", got is False, witness=dict(e=n_ + (c1,), f=tuple(f * x for x in n_) + (c2,), got=got))

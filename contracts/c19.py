"""C19: tensor arithmetic (dunders and ufunc dispatch) and index bookkeeping (__getitem__, transpose,
tensor_product, expand_dims, copy)."""
from __future__ import annotations

import itertools
import operator

import numpy as np

from gvc.harness import case, names
from contracts import geo
from contracts.geo import tolist
from contracts.c20 import _eq_all

ARITH = ["geometer.base.Tensor.__add__", "geometer.base.Tensor.__radd__", "geometer.base.Tensor.__sub__", "geometer.base.Tensor.__rsub__",
         "geometer.base.Tensor.__mul__", "geometer.base.Tensor.__rmul__", "geometer.base.Tensor.__truediv__", "geometer.base.Tensor.__neg__"]


def _b():
    import geometer.base as gb

    return gb


def _types(t):
    return (set(t._covariant_indices), set(t._contravariant_indices))


# --------------------------------------------------------------------------------------------- base arithmetic


@case("C19", "tensor.arith.bound", names("a", 2, 3) + names("b", 2, 3) + ["s"], mode="field", functions=ARITH)
def tensor_arith(ctx):
    gb = _b()
    A, B, s = ctx.arr("a", 2, 3), ctx.arr("b", 2, 3), ctx.sym("s")
    ctx.assume(ctx.neg(ctx.zero(s)))
    a, b = tolist(A), tolist(B)
    t = gb.Tensor(A, covariant=[0])
    u = gb.Tensor(B, covariant=[1])
    ty = _types(t)

    def chk(name, r, spec):
        ctx.ensure(name, ctx.conj([isinstance(r, gb.Tensor), _types(r) == ty, tuple(r.shape) == (2, 3), _eq_all(ctx, r.array, spec)]))

    add = [[x + y for x, y in zip(r1, r2)] for r1, r2 in zip(a, b)]
    sub = [[x - y for x, y in zip(r1, r2)] for r1, r2 in zip(a, b)]
    chk("t+tensor", t + u, add)
    chk("t+ndarray", t + B, add)
    chk("ndarray+t", operator.add(B, t) if False else t.__radd__(B), add)
    chk("t-tensor", t - u, sub)
    chk("t-ndarray", t - B, sub)
    chk("ndarray-t", t.__rsub__(B), [[y - x for x, y in zip(r1, r2)] for r1, r2 in zip(a, b)])
    chk("t+scalar", t + s, [[x + s for x in r] for r in a])
    chk("scalar+t", s + t, [[x + s for x in r] for r in a])
    chk("t-scalar", t - s, [[x - s for x in r] for r in a])
    chk("scalar-t", s - t, [[s - x for x in r] for r in a])
    chk("t*scalar", t * s, [[x * s for x in r] for r in a])
    chk("scalar*t", s * t, [[x * s for x in r] for r in a])
    chk("t/scalar", t / s, [[x / s for x in r] for r in a])
    chk("-t", -t, [[-x for x in r] for r in a])
    chk("t*python-int", t * 3, [[x * 3 for x in r] for r in a])
    chk("t*numpy-scalar", t * np.float64(0.5), [[x / 2 for x in r] for r in a])
    chk("t*0d-array", t * np.array(2), [[x * 2 for x in r] for r in a])
    chk("t+numpy-int", t + np.int64(2), [[x + 2 for x in r] for r in a])


@case("C19", "tensor.arith.collection", names("a", 2, 3) + names("b", 2, 3), mode="field", functions=ARITH)
def tensor_arith_collection(ctx):
    """the same dunders on a tensor with a collection axis: the collection axis must stay a collection axis"""
    gb = _b()
    A, B = ctx.arr("a", 2, 3), ctx.arr("b", 2, 3)
    a, b = tolist(A), tolist(B)
    t = gb.TensorCollection(A, tensor_rank=1)  # axis 0 collection, axis 1 covariant
    ty = _types(t)
    for name, r, spec in (
        ("t+ndarray", t + B, [[x + y for x, y in zip(r1, r2)] for r1, r2 in zip(a, b)]),
        ("t-ndarray", t - B, [[x - y for x, y in zip(r1, r2)] for r1, r2 in zip(a, b)]),
        ("t*scalar", t * 2, [[2 * x for x in r] for r in a]),
        ("t/scalar", t / 2, [[x / 2 for x in r] for r in a]),
        ("-t", -t, [[-x for x in r] for r in a]),
    ):
        ctx.ensure(name + "-values", _eq_all(ctx, r.array, spec))
        ctx.ensure(name + "-index-types", _types(r) == ty and r.free_indices == 1)


# --------------------------------------------------------------------------------------------- points


def _affine(v):
    return [x / v[-1] for x in v[:-1]]


@case("C19", "point.arith.finite", names("p", 3) + names("q", 3) + ["s"], mode="real",
      functions=["geometer.point.PointLikeTensor.__add__", "geometer.point.PointLikeTensor.__sub__", "geometer.point.PointLikeTensor.__mul__",
                 "geometer.point.PointLikeTensor.__truediv__", "geometer.point.PointLikeTensor._normalize_array"])
def point_arith_finite(ctx):
    import geometer

    p, q, s = ctx.vec("p", 3), ctx.vec("q", 3), ctx.sym("s")
    ctx.assume(ctx.neg(ctx.zero(p[2])))
    ctx.assume(ctx.neg(ctx.zero(q[2])))
    ctx.assume(ctx.neg(ctx.zero(s)))
    P, Q = geometer.Point(p), geometer.Point(q)
    ap, aq = _affine(tolist(p)), _affine(tolist(q))
    for name, r, spec in (
        ("p+q", P + Q, [x + y for x, y in zip(ap, aq)] + [1]),
        ("p-q", P - Q, [x - y for x, y in zip(ap, aq)] + [1]),
        ("p*s", P * s, [x * s for x in ap] + [1]),
        ("s*p", s * P, [x * s for x in ap] + [1]),
        ("p/s", P / s, [x / s for x in ap] + [1]),
    ):
        ctx.ensure(name + "-is-affine-arithmetic", ctx.conj([isinstance(r, geometer.Point), r.tensor_shape == (1, 0), ctx.proj_eq(r.array, spec)]))


@case("C19", "point.arith.direction", names("p", 3) + names("d", 2), mode="real",
      functions=["geometer.point.PointLikeTensor.__add__", "geometer.point.PointLikeTensor.__sub__"])
def point_arith_direction(ctx):
    """a point at infinity acts as a direction vector"""
    import geometer

    p, d = ctx.vec("p", 3), ctx.vec("d", 2)
    ctx.assume(ctx.neg(ctx.zero(p[2])))
    P = geometer.Point(p)
    D = geometer.Point(np.append(d, [0]))
    ap = _affine(tolist(p))
    dd = tolist(d)
    ctx.assume(ctx.neg(ctx.conj([ctx.zero(dd[0]), ctx.zero(dd[1])])))
    r = P + D
    ctx.ensure("finite+direction", ctx.conj([isinstance(r, geometer.Point), ctx.proj_eq(r.array, [ap[0] + dd[0], ap[1] + dd[1], 1])]))
    r = P - D
    ctx.ensure("finite-direction", ctx.proj_eq(r.array, [ap[0] - dd[0], ap[1] - dd[1], 1]))
    r = D + D
    ctx.ensure("direction+direction-stays-at-infinity", ctx.conj([ctx.zero(r.array[2]), ctx.minors_zero(r.array[:2], dd)]))


@case("C19", "point.arith.fallthrough", names("p", 3) + names("v", 3), mode="field",
      functions=["geometer.point.PointLikeTensor.__add__", "geometer.point.PointLikeTensor.__sub__", "geometer.curve.QuadricTensor.__sub__", "geometer.curve.QuadricTensor.__add__"])
def point_arith_fallthrough(ctx):
    """non-point operands fall through to the base-class array arithmetic"""
    import geometer

    p, v = ctx.vec("p", 3), ctx.vec("v", 3)
    P = geometer.Point(p)
    r = P + v
    ctx.ensure("point+ndarray", _eq_all(ctx, r.array, [x + y for x, y in zip(tolist(p), tolist(v))]))
    r = P - v
    ctx.ensure("point-ndarray", _eq_all(ctx, r.array, [x - y for x, y in zip(tolist(p), tolist(v))]))
    M = ctx.arr("m", 3, 3) if False else None


@case("C19", "quadric.arith.fallthrough", names("m", 3, 3) + names("w", 3, 3), mode="field",
      functions=["geometer.curve.QuadricTensor.__sub__", "geometer.curve.QuadricTensor.__add__"])
def quadric_arith_fallthrough(ctx):
    import geometer

    M, W = ctx.arr("m", 3, 3), ctx.arr("w", 3, 3)
    Q = geometer.Quadric(M)
    r = Q + W
    ctx.ensure("quadric+ndarray", _eq_all(ctx, r.array, [[x + y for x, y in zip(r1, r2)] for r1, r2 in zip(tolist(M), tolist(W))]))
    r = Q - W
    ctx.ensure("quadric-ndarray", _eq_all(ctx, r.array, [[x - y for x, y in zip(r1, r2)] for r1, r2 in zip(tolist(M), tolist(W))]))


# --------------------------------------------------------------------------------------------- ufunc dispatch


class _Rec:
    """records which dunder is invoked"""

    def __init__(self):
        self.calls = []


def _mk_rec_method(name):
    def f(self, *a):
        self.calls.append((name, a))
        return ("called", name)

    return f


for _op in ("add", "sub", "mul", "pow", "mod", "floordiv", "truediv", "matmul", "or", "xor", "and", "divmod"):
    setattr(_Rec, "__%s__" % _op, _mk_rec_method("__%s__" % _op))
    setattr(_Rec, "__r%s__" % _op, _mk_rec_method("__r%s__" % _op))
for _op in ("eq", "ne", "lt", "le", "gt", "ge", "neg", "pos", "abs"):
    setattr(_Rec, "__%s__" % _op, _mk_rec_method("__%s__" % _op))
_Rec.__hash__ = lambda self: id(self)


_BIN = {"add": "add", "subtract": "sub", "multiply": "mul", "power": "pow", "mod": "mod", "remainder": "mod", "floor_divide": "floordiv",
        "true_divide": "truediv", "divide": "truediv", "matmul": "matmul", "bitwise_or": "or", "bitwise_xor": "xor", "bitwise_and": "and",
        "divmod": "divmod"}
_CMPS = {"equal": ("eq", "eq"), "not_equal": ("ne", "ne"), "less": ("lt", "gt"), "less_equal": ("le", "ge"),
         "greater": ("gt", "lt"), "greater_equal": ("ge", "le")}
_UN = {"negative": "neg", "positive": "pos", "absolute": "abs"}


@case("C19", "ufunc.dispatch.table", [], mode="field", oracle=False,
      functions=["geometer.utils.ops_dispatch.maybe_dispatch_ufunc_to_dunder_op", "geometer.base.Tensor.__array_ufunc__"])
def ufunc_dispatch(ctx):
    from geometer.utils.ops_dispatch import maybe_dispatch_ufunc_to_dunder_op as disp

    bad = []
    n = 0
    other = np.array([1.0, 2.0])
    for uname, op in _BIN.items():
        uf = getattr(np, uname)
        r = _Rec()
        out = disp(r, uf, "__call__", r, other)
        n += 1
        if r.calls != [("__%s__" % op, (other,))] or out != ("called", "__%s__" % op):
            bad.append((uname, "left", r.calls))
        r = _Rec()
        out = disp(r, uf, "__call__", other, r)
        n += 1
        if r.calls != [("__r%s__" % op, (other,))]:
            bad.append((uname, "right", r.calls))
    for uname, (l, rr) in _CMPS.items():
        uf = getattr(np, uname)
        r = _Rec()
        disp(r, uf, "__call__", r, other)
        n += 1
        if r.calls != [("__%s__" % l, (other,))]:
            bad.append((uname, "left", r.calls))
        r = _Rec()
        disp(r, uf, "__call__", other, r)
        n += 1
        if r.calls != [("__%s__" % rr, (other,))]:
            bad.append((uname, "right", r.calls))
    for uname, op in _UN.items():
        uf = getattr(np, uname)
        r = _Rec()
        disp(r, uf, "__call__", r)
        n += 1
        if r.calls != [("__%s__" % op, ())]:
            bad.append((uname, "unary", r.calls))
    # everything else is NotImplemented: other methods, kwargs, non-dispatched ufuncs
    for meth in ("reduce", "accumulate", "outer", "reduceat", "at"):
        r = _Rec()
        n += 1
        if disp(r, np.add, meth, r, other) is not NotImplemented or r.calls:
            bad.append(("add", meth))
    for uf in (np.sin, np.exp, np.sqrt, np.maximum, np.hypot, np.arctan2, np.isfinite):
        r = _Rec()
        n += 1
        if disp(r, uf, "__call__", r, other) is not NotImplemented or r.calls:
            bad.append((uf.__name__, "not dispatched"))
    r = _Rec()
    n += 1
    if disp(r, np.add, "__call__", r, other, out=None) is not NotImplemented:
        bad.append(("add", "kwargs"))
    ctx.ensure("dispatch-table-matches-python-data-model", not bad, entries=n, bad=str(bad)[:300])


@case("C19", "ufunc.dispatch.tensor", names("a", 2, 2) + ["s"], mode="field", functions=["geometer.base.Tensor.__array_ufunc__"] + ARITH)
def ufunc_tensor(ctx):
    gb = _b()
    A, s = ctx.arr("a", 2, 2), ctx.sym("s")
    ctx.assume(ctx.neg(ctx.zero(s)))
    a = tolist(A)
    t = gb.Tensor(A, covariant=[0])
    ty = _types(t)
    B = np.array([[1, 2], [3, 4]])
    for name, r, spec in (
        ("np.add(t,B)", np.add(t, B), [[a[i][j] + B[i][j] for j in range(2)] for i in range(2)]),
        ("np.add(B,t)", np.add(B, t), [[a[i][j] + B[i][j] for j in range(2)] for i in range(2)]),
        ("np.subtract(t,B)", np.subtract(t, B), [[a[i][j] - B[i][j] for j in range(2)] for i in range(2)]),
        ("np.subtract(B,t)", np.subtract(B, t), [[B[i][j] - a[i][j] for j in range(2)] for i in range(2)]),
        ("np.multiply(t,2)", np.multiply(t, 2), [[2 * a[i][j] for j in range(2)] for i in range(2)]),
        ("np.multiply(2,t)", np.multiply(2, t), [[2 * a[i][j] for j in range(2)] for i in range(2)]),
        ("np.true_divide(t,2)", np.true_divide(t, 2), [[a[i][j] / 2 for j in range(2)] for i in range(2)]),
        ("np.negative(t)", np.negative(t), [[-a[i][j] for j in range(2)] for i in range(2)]),
        ("B-t", B - t, [[B[i][j] - a[i][j] for j in range(2)] for i in range(2)]),
        ("B+t", B + t, [[B[i][j] + a[i][j] for j in range(2)] for i in range(2)]),
    ):
        ctx.ensure(name, ctx.conj([isinstance(r, gb.Tensor), _types(r) == ty, _eq_all(ctx, r.array, spec)]))


# --------------------------------------------------------------------------------------------- indexing


def _index_kinds(rank):
    """index elements by kind"""
    return ["int", "slice", "slice2", "none", "ell", "ia1", "ia2", "ba1", "neg"]


def _mk_elem(kind, dim):
    if kind == "int":
        return 1
    if kind == "neg":
        return -1
    if kind == "slice":
        return slice(None)
    if kind == "slice2":
        return slice(0, 2)
    if kind == "none":
        return None
    if kind == "ell":
        return Ellipsis
    if kind == "ia1":
        return np.array([1, 0, 1])
    if kind == "ia2":
        return np.array([[0, 1], [1, 0], [1, 1]])
    if kind == "bool0":
        return True
    if kind == "ba1":
        m = np.zeros(dim, dtype=bool)
        m[0] = m[dim - 1] = True
        return m
    raise ValueError(kind)


def gen_indices(shape):
    """all index tuples of length <= rank+1 over the kinds, valid for numpy"""
    rank = len(shape)
    kinds = ["int", "neg", "slice", "slice2", "none", "ell", "ia1", "ia2", "ba1", "ba2", "bool0"]
    out = []
    for L in range(1, rank + 2):
        for ks in itertools.product(kinds, repeat=L):
            if ks.count("ell") > 1:
                continue
            if ks.count("bool0") > 1:
                continue  # one boolean scalar per index; combined with other advanced indices (arrays, integers) it broadcasts with them
            consuming = [k for k in ks if k not in ("none", "ell", "bool0")]
            if len(consuming) + ks.count("ba2") > rank:
                continue
            if ks.count("none") > 2 or sum(k in ("ia1", "ia2", "ba1", "ba2") for k in ks) > 2:
                continue
            # positions of consumed axes to build boolean masks of the right length
            elems = []
            ax = 0
            n_after = None
            ok = True
            for i, k in enumerate(ks):
                if k == "ell":
                    rest = [x for x in ks[i + 1 :] if x not in ("none", "bool0")]
                    ax = rank - len(rest) - rest.count("ba2")
                    elems.append(Ellipsis)
                    continue
                if k == "none":
                    elems.append(None)
                    continue
                if k == "bool0":
                    elems.append(True)
                    continue
                if ax >= rank or ax < 0:
                    ok = False
                    break
                if k == "ba2":
                    # a boolean mask over TWO axes (equivalent to the two index arrays mask.nonzero())
                    if ax + 1 >= rank:
                        ok = False
                        break
                    m = np.zeros((shape[ax], shape[ax + 1]), dtype=bool)
                    m[0, 0] = m[-1, -1] = m[0, -1] = True
                    elems.append(m)
                    ax += 2
                    continue
                elems.append(_mk_elem(k, shape[ax]))
                ax += 1
            if not ok:
                continue
            out.append((ks, tuple(elems)))
    return out


def _expected_mapping(shape, ks, index):
    """oracle from numpy itself: probe array whose entries are their own flat index"""
    rank = len(shape)
    probe = np.arange(int(np.prod(shape))).reshape(shape)
    res = probe[index]
    if not isinstance(res, np.ndarray):
        return None, res
    # kind of every source axis
    src_kind = {}
    ax = 0
    for i, k in enumerate(ks):
        if k == "ell":
            rest = [x for x in ks[i + 1 :] if x not in ("none", "bool0")]
            nrest = len(rest) + rest.count("ba2")
            for a_ in range(ax, rank - nrest):
                src_kind[a_] = "slice"
            ax = rank - nrest
            continue
        if k in ("none", "bool0"):
            continue
        if k == "ba2":
            src_kind[ax] = src_kind[ax + 1] = "adv"
            ax += 2
            continue
        src_kind[ax] = "slice" if k.startswith("slice") else ("int" if k in ("int", "neg") else "adv")
        ax += 1
    for a_ in range(ax, rank):
        src_kind[a_] = "slice"
    exp = []
    for r in range(res.ndim):
        varying = set()
        if res.shape[r] > 1:
            for pos in itertools.product(*[range(min(2, s)) for s in res.shape]):
                if pos[r] != 0:
                    continue
                p2 = list(pos)
                p2[r] = 1
                i1 = np.unravel_index(res[pos], shape)
                i2 = np.unravel_index(res[tuple(p2)], shape)
                for a_ in range(rank):
                    if i1[a_] != i2[a_]:
                        varying.add(a_)
        if len(varying) == 1 and src_kind.get(next(iter(varying))) == "slice":
            exp.append(next(iter(varying)))
        else:
            exp.append(None)
    return exp, res


def _getitem_case(shape, pattern, tier, tag):
    @case("C19", "getitem.%s" % tag, [], mode="field", oracle=False, tier=tier,
          functions=["geometer.base.Tensor.__getitem__", "geometer.base.Tensor._get_index_mapping", "geometer.utils.indexing.normalize_index"])
    def _(ctx):
        gb = _b()
        arr = np.arange(int(np.prod(shape))).reshape(shape)
        cov = [i for i, ch in enumerate(pattern) if ch == "c"]
        ncoll = pattern.count("f")
        t = gb.Tensor(arr, covariant=[i - ncoll for i in cov], tensor_rank=len(pattern) - ncoll)
        src_type = {i: ch for i, ch in enumerate(pattern)}
        bad_val, bad_type, n, adj = [], [], 0, []
        for ks, index in gen_indices(shape):
            try:
                expected, res = _expected_mapping(shape, ks, index)
            except IndexError:
                continue
            n += 1
            advpos = [i for i, k in enumerate(ks) if k in ("int", "neg", "ia1", "ia2", "ba1", "ba2", "bool0")]
            empty_ell = "ell" in ks and len([k for k in ks if k not in ("none", "ell", "bool0")]) + ks.count("ba2") == len(shape)
            # residual known finding: a zero-length Ellipsis between two advanced indices (a boolean scalar is one)
            excused_class = bool(empty_ell and advpos and advpos[0] < ks.index("ell") < advpos[-1]
                                 and any(k in ("ia1", "ia2", "ba1", "ba2", "bool0") for k in ks))
            try:
                r = t[index if len(index) > 1 else index[0]]
            except Exception as e:
                (adj if excused_class else bad_type).append(ks + (type(e).__name__,))
                continue
            if expected is None:
                if not (isinstance(r, np.generic) and r == res):
                    bad_val.append(ks)
                continue
            if not isinstance(r, gb.Tensor) or not np.array_equal(np.asarray(r.array), res):
                bad_val.append(ks)
                continue
            exp_cov = {i for i, s in enumerate(expected) if s is not None and src_type[s] == "c"}
            exp_con = {i for i, s in enumerate(expected) if s is not None and src_type[s] == "v"}
            if (set(r._covariant_indices), set(r._contravariant_indices)) != (exp_cov, exp_con):
                # known limitation class: an integer and an index array separated by a slice
                (adj if excused_class else bad_type).append(ks)
        ctx.ensure("values==array[index]", not bad_val, indices=n, bad=str(bad_val[:5]))
        ctx.ensure("index-types-follow-numpy-axes", not bad_type, indices=n, bad=str(bad_type[:5]))
        ctx.ensure("index-types-follow-numpy-axes(empty-ellipsis-between-advanced-indices)", not adj, indices=n, bad=str(adj[:5]),
                   excuse=("KF-C19-1", None))


_getitem_case((3,), "c", "quick", "rank1")
_getitem_case((3, 4), "cv", "quick", "rank2.cv")
_getitem_case((3, 4), "fc", "quick", "rank2.fc")
_getitem_case((3, 4, 3), "fcv", "quick", "rank3.fcv")
_getitem_case((3, 4, 3), "vcc", "quick", "rank3.vcc")
_getitem_case((3, 4, 3, 4), "ffcv", "thorough", "rank4.ffcv")
_getitem_case((3, 4, 3, 4), "cvcv", "thorough", "rank4.cvcv")


# --------------------------------------------------------------------------------------------- transpose, expand_dims, copy


@case("C19", "transpose.expand_dims.copy", names("a", 2, 3, 2), mode="field",
      functions=["geometer.base.Tensor.transpose", "geometer.base.Tensor.copy", "geometer.base.TensorCollection.expand_dims", "geometer.base.Tensor.T"])
def transpose_etc(ctx):
    gb = _b()
    A = ctx.arr("a", 2, 3, 2)
    a = tolist(A)
    for pattern in ("ccv", "cvc", "vcc", "vvc"):
        t = gb.Tensor(A, covariant=[i for i, ch in enumerate(pattern) if ch == "c"])
        for perm in itertools.permutations(range(3)):
            r = t.transpose(perm)
            # numpy semantics: result axis i is source axis perm[i]
            spec_types = ({i for i in range(3) if pattern[perm[i]] == "c"}, {i for i in range(3) if pattern[perm[i]] == "v"})
            shape = tuple((2, 3, 2)[perm[i]] for i in range(3))
            vals = []
            for idx in itertools.product(*[range(s) for s in shape]):
                src = [0, 0, 0]
                for i in range(3):
                    src[perm[i]] = idx[i]
                vals.append(ctx.zero(r.array[idx] - a[src[0]][src[1]][src[2]]))
            ctx.ensure("transpose-full-permutation", ctx.conj([_types(r) == spec_types, tuple(r.shape) == shape] + vals))
        r = t.T
        ctx.ensure("T-reverses", ctx.conj([_types(r) == ({2 - i for i in t._covariant_indices}, {2 - i for i in t._contravariant_indices}),
                                           _eq_all(ctx, r.array, np.transpose(np.asarray(A, dtype=object) if ctx.symbolic else A, (2, 1, 0)))]))
        c = t.copy()
        ctx.ensure("copy", ctx.conj([c is not t, type(c) is type(t), _types(c) == _types(t), _eq_all(ctx, c.array, a)]))
    # cycle notation: (0 2) swaps axes 0 and 2
    t = gb.Tensor(A, covariant=[0])
    r = t.transpose((0, 2))
    ctx.ensure("transpose-cycle", ctx.conj([_types(r) == ({2}, {0, 1}), _eq_all(ctx, r.array, np.swapaxes(np.asarray(A, dtype=object) if ctx.symbolic else A, 0, 2))]))
    # expand_dims on a collection
    tc = gb.TensorCollection(A, tensor_rank=1)  # axes 0,1 collection, axis 2 covariant
    for axis in (0, 1, 2, -4, -3, -2):
        e = tc.expand_dims(axis)
        pos = axis if axis >= 0 else axis + 4
        ctx.ensure("expand_dims", ctx.conj([type(e) is type(tc), tuple(e.shape) == tuple(np.expand_dims(np.zeros((2, 3, 2)), pos).shape),
                                            _types(e) == ({3}, set()), e.free_indices == 3]))

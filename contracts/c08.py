"""C08: transformation constructors realise their Euclidean / projective definition."""
from __future__ import annotations

import itertools

import numpy as np

from gvc.harness import case, names
from contracts import geo
from contracts.geo import dot, tolist
from contracts.c20 import _eq_all

TRIG = ["np.cos / np.sin leaf: generator pair (c, s) with c**2 + s**2 == 1 per angle symbol; sums of angles by the addition formulas"]


def _g():
    import geometer
    import geometer.transformation as gt

    return geometer, gt


@case("C08", "affine.translation.scaling", names("m", 2, 2) + names("v", 2) + names("p", 3) + names("f", 3) + names("w", 3), mode="real",
      functions=["geometer.transformation.affine_transform", "geometer.transformation.translation", "geometer.transformation.scaling"], timeout=60)
def affine_translation_scaling(ctx):
    geometer, gt = _g()
    M, v, p, f, w = ctx.arr("m", 2, 2), ctx.vec("v", 2), ctx.vec("p", 3), ctx.vec("f", 3), ctx.vec("w", 3)
    lm, lv, lp = tolist(M), tolist(v), tolist(p)
    t = gt.affine_transform(M, v)
    ctx.ensure("affine_transform==[[A,v],[0,1]]", ctx.conj([type(t) is gt.Transformation, _eq_all(ctx, t.array, [[lm[0][0], lm[0][1], lv[0]], [lm[1][0], lm[1][1], lv[1]], [0, 0, 1]])]))
    tr = gt.translation(v[0], v[1])
    ctx.ensure("translation-matrix", _eq_all(ctx, tr.array, [[1, 0, lv[0]], [0, 1, lv[1]], [0, 0, 1]]))
    img = tr * geometer.Point(p)
    ctx.ensure("translation(v)*p==p+v", ctx.conj([type(img) is geometer.Point, _eq_all(ctx, img.array, [lp[0] + lv[0] * lp[2], lp[1] + lv[1] * lp[2], lp[2]])]))
    # offset given as a Point with an arbitrary finite representative
    ctx.assume(ctx.neg(ctx.zero(w[2])))
    with ctx.stubs():
        tr2 = gt.translation(geometer.Point(w))
    lw = tolist(w)
    ctx.ensure("translation(Point)-uses-the-affine-offset", _eq_all(ctx, [[x * lw[2] for x in r] for r in tolist(tr2.array)], [[lw[2], 0, lw[0]], [0, lw[2], lw[1]], [0, 0, lw[2]]]))
    tr3 = gt.translation(f[0], f[1], f[2])
    lf = tolist(f)
    ctx.ensure("translation-3d-matrix", _eq_all(ctx, tr3.array, [[1, 0, 0, lf[0]], [0, 1, 0, lf[1]], [0, 0, 1, lf[2]], [0, 0, 0, 1]]))
    sc = gt.scaling(f[0], f[1], f[2])
    ctx.ensure("scaling-3d-matrix", _eq_all(ctx, sc.array, [[lf[0], 0, 0, 0], [0, lf[1], 0, 0], [0, 0, lf[2], 0], [0, 0, 0, 1]]))
    sc2 = gt.scaling(v[0], v[1])
    img = sc2 * geometer.Point(p)
    ctx.ensure("scaling-multiplies-coordinates", _eq_all(ctx, img.array, [lp[0] * lv[0], lp[1] * lv[1], lp[2]]))


@case("C08", "rotation.2d", ["s", "t"] + names("p", 3), mode="real", functions=["geometer.transformation.rotation", "geometer.transformation.affine_transform"],
      assumptions=TRIG, timeout=60, xcheck=False)
def rotation_2d(ctx):
    geometer, gt = _g()
    s, t, p = ctx.sym("s"), ctx.sym("t"), ctx.vec("p", 3)
    if ctx.symbolic:
        from gvc.sym import trig

        c, sn = trig(t)
    else:
        c, sn = np.cos(t), np.sin(t)
    R = gt.rotation(t)
    ctx.ensure("counter-clockwise-rotation-matrix", _eq_all(ctx, R.array, [[c, -sn, 0], [sn, c, 0], [0, 0, 1]]))
    Rs = gt.rotation(s)
    comp = Rs * R
    Rst = gt.rotation(s + t)
    ctx.ensure("rotation(s)*rotation(t)==rotation(s+t)", _eq_all(ctx, comp.array, Rst.array))
    inv = gt.rotation(-t)
    ctx.ensure("rotation(-t)*rotation(t)==identity", _eq_all(ctx, (inv * R).array, geo.identity(3)))
    ctx.ensure("orthogonal-det-1", ctx.conj([_eq_all(ctx, geo.matmul(tolist(R.array), geo.transpose(tolist(R.array))), geo.identity(3)), ctx.zero(geo.det(tolist(R.array)) - 1)]))


@case("C08", "rotation.3d", ["s", "t", "k"] + names("a", 3), mode="real", also=("C03",), share=True, functions=["geometer.transformation.rotation", "geometer.base.TensorDiagram.calculate", "geometer.utils.math.outer"],
      assumptions=TRIG + ["np.linalg.norm leaf: generator n >= 0 with n**2 == a.a"], timeout=180, max_paths=64, xcheck=False)
def rotation_3d(ctx):
    """every axis direction: orthogonal, determinant 1, fixes the axis, turns by the angle (trace = 1 + 2 cos), additive in the angle"""
    geometer, gt = _g()
    s, t, a = ctx.sym("s"), ctx.sym("t"), ctx.vec("a", 3)
    ctx.assume(ctx.neg(ctx.all_zero(a)))
    if ctx.symbolic:
        from gvc.sym import trig

        c, sn = trig(t)
    else:
        c, sn = np.cos(t), np.sin(t)
    k = ctx.sym("k")
    ctx.assume(ctx.neg(ctx.zero(k)))
    with ctx.stubs():
        R = gt.rotation(t, axis=geometer.Point(a[0], a[1], a[2]))
        # the same axis point given by another homogeneous representative (any non-zero, also negative, scale)
        Rk = gt.rotation(t, axis=geometer.Point(np.append(a, [1]) * k))
        Rs = gt.rotation(s, axis=geometer.Point(a[0], a[1], a[2]))
        Rst = gt.rotation(s + t, axis=geometer.Point(a[0], a[1], a[2]))
    M = [r[:3] for r in tolist(R.array)[:3]]
    sc = None if ctx.symbolic else 1.0
    ctx.ensure("affine-embedding", ctx.conj([ctx.zero(R.array[3][i], scale=sc) for i in range(3)] + [ctx.zero(R.array[i][3], scale=sc) for i in range(3)] + [ctx.zero(R.array[3][3] - 1, scale=sc)]))
    ctx.ensure("orthogonal", _eq_all(ctx, geo.matmul(M, geo.transpose(M)), geo.identity(3)))
    ctx.ensure("determinant-1", ctx.zero(geo.det(M) - 1, scale=sc))
    ctx.ensure("fixes-the-axis", _eq_all(ctx, geo.matvec(M, tolist(a)), tolist(a)))
    ctx.ensure("independent-of-the-representative-of-the-axis-point", _eq_all(ctx, Rk.array, R.array))
    ctx.ensure("turns-by-the-angle:trace==1+2cos", ctx.zero(M[0][0] + M[1][1] + M[2][2] - 1 - 2 * c, scale=sc))
    ctx.ensure("rotation(s)*rotation(t)==rotation(s+t)-about-the-same-axis", _eq_all(ctx, (Rs * R).array, Rst.array))


@case("C08", "reflection.2d", names("l", 3) + names("p", 3), mode="real",
      functions=["geometer.transformation.reflection", "geometer.point.LineTensor.basis_matrix", "geometer.point.LineTensor.base_point", "geometer.transformation.translation"],
      assumptions=["np.linalg.norm leaf: generator n >= 0 with n**2 == radicand"], timeout=240, max_paths=200, explore_time=900)
def reflection_2d(ctx):
    geometer, gt = _g()
    l, p = ctx.vec("l", 3), ctx.vec("p", 3)
    ctx.assume(ctx.neg(ctx.conj([ctx.zero(l[0]), ctx.zero(l[1])])))
    with ctx.stubs():
        R = gt.reflection(geometer.Line(l))
    ll, lp = tolist(l), tolist(p)
    nn = ll[0] ** 2 + ll[1] ** 2
    lpd = dot(ll, lp)
    spec = [lp[0] * nn - 2 * lpd * ll[0], lp[1] * nn - 2 * lpd * ll[1], lp[2] * nn]
    img = geo.matvec(tolist(R.array), lp)
    ctx.ensure("reflection(h)*p==closed-form-mirror-image (agrees with h.mirror, C10)", ctx.conj([ctx.minors_zero(img, spec)]))
    ctx.ensure("involution", ctx.minors_zero(geo.matmul(tolist(R.array), tolist(R.array)), geo.identity(3)))
    # fixes the mirror pointwise: for q on l, R q ~ q   (q = l x (anything))
    q = geo.cross(ll, lp)
    ctx.ensure("fixes-the-mirror-pointwise", ctx.minors_zero(geo.matvec(tolist(R.array), q), q))


@case("C08", "reflection.infinity", [], mode="real", functions=["geometer.transformation.reflection"], oracle=False)
def reflection_infinity(ctx):
    geometer, gt = _g()
    with ctx.stubs():
        R = gt.reflection(geometer.infty)
        R3 = gt.reflection(geometer.infty_plane)
    ctx.ensure("reflection(line-at-infinity)==identity", _eq_all(ctx, R.array, geo.identity(3)))
    ctx.ensure("reflection(plane-at-infinity)==identity", _eq_all(ctx, R3.array, geo.identity(4)))


@case("C08", "from_points.2d", names("a", 4, 3) + names("b", 4, 3), mode="field", functions=["geometer.transformation.Transformation.from_points"],
      assumptions=["np.linalg.solve / np.linalg.inv leaf = adj/det"], timeout=300, max_paths=64, explore_time=900)
def from_points_2d(ctx):
    geometer, gt = _g()
    A, B = ctx.arr("a", 4, 3), ctx.arr("b", 4, 3)
    # general position: no three of the four points collinear (both frames)
    for X in (A, B):
        for i, j, k in itertools.combinations(range(4), 3):
            ctx.assume(ctx.neg(ctx.zero(geo.det([tolist(X[i]), tolist(X[j]), tolist(X[k])]))))
    # ghost lemma (normal form): det(m diag(d)) with d = m^-1 x is the product of the three Cramer determinants over det(m)^2,
    # so that the matrices inverted by the constructor are regular in general position
    for X in (A, B):
        cols = [tolist(X[i]) for i in range(3)]
        x4 = tolist(X[3])
        cr = [geo.det([x4 if j == i else cols[j] for j in range(3)]) for i in range(3)]
        ctx.factor_hint(cr[0] * cr[1] * cr[2], cr)
        dm = geo.det(geo.transpose(cols))
        ctx.factor_hint(dm * cr[0] * cr[1] * cr[2], [dm] + cr)
    T = gt.Transformation.from_points(*[(geometer.Point(A[i]), geometer.Point(B[i])) for i in range(4)])
    ctx.ensure("kind", type(T) is gt.Transformation and tuple(T.shape) == (3, 3))
    for i in range(4):
        ctx.ensure("maps-source-%d-to-target-%d" % (i, i), ctx.minors_zero(geo.matvec(tolist(T.array), tolist(A[i])), tolist(B[i])))


# ------------------------------------------------------------------------------------------------ bounded: numeric constructors
@case("C08", "constructors.numeric.lattice", [], kind="bounded",
      functions=["geometer.transformation.reflection", "geometer.transformation.rotation", "geometer.transformation.translation", "geometer.transformation.scaling",
                 "geometer.transformation.Transformation.from_points", "geometer.transformation.Transformation.from_points_and_conics"],
      bound="reflection at 2D lines / 3D planes with 9 normals x offsets {0, +-1e-3, +-3e-3, 1e-2, 0.5, 3, -40} (mirrors through and NEAR the origin) x 6 points against the closed form; "
            "3D rotations about 8 axis points given by 3 homogeneous representatives (negative ones included) x 5 angles against Rodrigues' formula; translation by points in 4 representatives; "
            "3D from_points on 6 frames")
def constructors_numeric(ctx):
    import itertools

    import geometer as g
    from geometer.transformation import reflection, rotation, translation, Transformation

    offsets = [0, 1e-3, -1e-3, 3e-3, -3e-3, 1e-2, 0.5, 3, -40]
    normals2 = [(0, 1), (1, 0), (3, 4), (1, -1), (-2, 1), (1, 2), (5, -12), (-1, -1), (0.3, 0.4)]
    pts2 = [(0, 0), (1, 2), (-3, 0.5), (2, -1), (10, 7), (0.001, -0.002)]
    for n, d in itertools.product(normals2, offsets):
        h = g.Line(n[0], n[1], d)
        r = reflection(h)
        nn = n[0] ** 2 + n[1] ** 2
        ok, bad = True, None
        for p in pts2:
            s = (n[0] * p[0] + n[1] * p[1] + d) / nn
            want = (p[0] - 2 * s * n[0], p[1] - 2 * s * n[1])
            got = (r * g.Point(*p)).normalized_array[:2]
            if not np.allclose(got, want, atol=1e-9, rtol=1e-9):
                ok, bad = False, dict(point=p, got=np.asarray(got).tolist(), want=want)
                break
        ctx.ensure("reflection-2d==closed-form", ok, witness=dict(line=(n[0], n[1], d), bad=bad))
    normals3 = [(0, 0, 1), (1, 0, 0), (1, 2, 2), (1, -1, 1), (-2, 1, 0), (2, 3, 6), (0, 3, -4), (-1, -1, -1), (0.2, 0.3, 0.6)]
    pts3 = [(0, 0, 0), (1, 2, 3), (-3, 0.5, 1), (2, -1, -2), (10, 7, -4), (0.001, -0.002, 0.003)]
    for n, d in itertools.product(normals3, offsets):
        h = g.Plane(n[0], n[1], n[2], d)
        r = reflection(h)
        nn = sum(x * x for x in n)
        ok, bad = True, None
        for p in pts3:
            s = (sum(a * b for a, b in zip(n, p)) + d) / nn
            want = tuple(p[i] - 2 * s * n[i] for i in range(3))
            got = (r * g.Point(*p)).normalized_array[:3]
            if not np.allclose(got, want, atol=1e-9, rtol=1e-9):
                ok, bad = False, dict(point=p, got=np.asarray(got).tolist(), want=want)
                break
        ctx.ensure("reflection-3d==closed-form", ok, witness=dict(plane=(*n, d), bad=bad))
    # rotation about an axis given by any homogeneous representative of the axis point (Rodrigues)
    axes = [(0, 0, 1), (1, 0, 0), (1, 1, 1), (1, 2, 2), (-1, 2, 0), (2, -3, 6), (0, -1, 1), (3, 0, -4)]
    for ax in axes:
        u = np.array(ax, dtype=float)
        u /= np.linalg.norm(u)
        K = np.array([[0, -u[2], u[1]], [u[2], 0, -u[0]], [-u[1], u[0], 0]])
        for ang in (0.3, -1.1, 2.0, np.pi / 2, 3.0):
            # the property fixes the turning angle |a|, not the orientation convention: either sense is accepted, but the same one for every representative
            Rp = np.eye(3) + np.sin(ang) * K + (1 - np.cos(ang)) * K @ K
            Rm = np.eye(3) - np.sin(ang) * K + (1 - np.cos(ang)) * K @ K
            first = None
            for scale in (1.0, 2.5, -1.0, -3.0):
                t = rotation(ang, axis=g.Point(np.array(list(ax) + [1.0]) * scale))
                m = np.asarray(t.array, dtype=float)
                m = m / m[3, 3]
                first = m if first is None else first
                ok = (np.allclose(m[:3, :3], Rp, atol=1e-9) or np.allclose(m[:3, :3], Rm, atol=1e-9)) and np.allclose(m, first, atol=1e-9) \
                    and np.allclose(m[:3, 3], 0, atol=1e-12) and np.allclose(m[3, :3], 0, atol=1e-12)
                ctx.ensure("rotation-3d==rodrigues(any-representative-of-the-axis-point)", ok, witness=dict(axis=ax, angle=float(ang), scale=scale))
    for v in [(1, 2), (-3, 0.5), (0, 4)]:
        for scale in (1.0, 2.0, -1.0, -0.5):
            t = translation(g.Point(np.array(list(v) + [1.0]) * scale))
            got = (t * g.Point(5, -7)).normalized_array[:2]
            ctx.ensure("translation(point)==affine-offset(any-representative)", np.allclose(got, (5 + v[0], -7 + v[1]), atol=1e-12), witness=dict(offset=v, scale=scale, got=np.asarray(got).tolist()))
    for v in [(1, 2, 3), (-3, 0.5, 2)]:
        for scale in (1.0, 2.0, -1.0):
            t = translation(g.Point(np.array(list(v) + [1.0]) * scale))
            got = (t * g.Point(5, -7, 1)).normalized_array[:3]
            ctx.ensure("translation(point)==affine-offset(any-representative)", np.allclose(got, (5 + v[0], -7 + v[1], 1 + v[2]), atol=1e-12), witness=dict(offset=v, scale=scale, got=np.asarray(got).tolist()))
    # from_points in 3D: five points in general position onto five others
    rnd = np.random.RandomState(4)
    for k in range(6):
        while True:
            A = rnd.randint(-4, 5, size=(5, 3)).astype(float)
            B = rnd.randint(-4, 5, size=(5, 3)).astype(float)
            hom = lambda X: np.hstack([X, np.ones((5, 1))])
            if all(abs(np.linalg.det(np.delete(hom(X), i, axis=0))) > 0.5 for X in (A, B) for i in range(5)):
                break
        t = Transformation.from_points(*[(g.Point(*a), g.Point(*b)) for a, b in zip(A, B)])
        ctx.ensure("from_points-3d-maps-the-frame", all((t * g.Point(*a)) == g.Point(*b) for a, b in zip(A, B)), witness=dict(source=A.tolist(), target=B.tolist()))
    # from_points_and_conics: three points on a conic onto three points on another conic, the conic onto the conic
    from geometer.curve import Circle, Ellipse, Conic
    import math

    def on_circle(c, r, t):
        return g.Point(c[0] + r * math.cos(t), c[1] + r * math.sin(t))

    def on_ellipse(c, a, b, t):
        return g.Point(c[0] + a * math.cos(t), c[1] + b * math.sin(t))

    angle_sets = [(0.1, 1.3, 2.9), (0.4, 2.0, 4.0), (5.5, 0.7, 3.1), (1.0, 3.0, 5.0), (2.9, 1.3, 0.1), (4.4, 0.2, 2.2)]
    for src in angle_sets:
        for dst in angle_sets[:3]:
            c1, c2 = Circle(g.Point(0, 0), 1), Ellipse(g.Point(2, -1), 3, 1.5)
            P1 = [on_circle((0, 0), 1, t) for t in src]
            P2 = [on_ellipse((2, -1), 3, 1.5, t) for t in dst]
            w = dict(source_angles=src, target_angles=dst)
            try:
                t = Transformation.from_points_and_conics(P1, P2, c1, c2)
                img = t * c1
                ok = all((t * a) == b for a, b in zip(P1, P2)) and img == c2 and all(_res_on_conic(c2, t * on_circle((0, 0), 1, u)) for u in (0.9, 2.5, 4.9))
            except Exception as e:
                ok = False
                w["exception"] = "%s: %s" % (type(e).__name__, str(e)[:100])
            ctx.ensure("from_points_and_conics:maps-the-points-and-the-conic", ok, witness=w)


def _res_on_conic(c, x, rel=1e-7):
    A = np.asarray(c.array, dtype=complex)
    v = np.asarray(x.array, dtype=complex)
    return abs(v @ A @ v) <= rel * np.abs(A).max() * np.abs(v).max() ** 2

"""C09: dist and angle against the Cartesian distance / the Euclidean angle (real mode)."""
from __future__ import annotations

import itertools

import numpy as np

from gvc.harness import case, names
from contracts import geo
from contracts.geo import dot, tolist

FUN = ["geometer.operators.dist", "geometer.operators._point_dist", "geometer.utils.math.det"]


def _g():
    import geometer
    import geometer.operators as go

    return geometer, go


def _sq(ctx, d):
    """square of a distance value (AbsSym aware)"""
    return d ** 2 if ctx.symbolic else float(d) ** 2


def _d2_points(p, q):
    """squared Cartesian distance times (pz qz)^2, for arbitrary homogeneous representatives"""
    n = len(p) - 1
    return sum((p[i] * q[n] - q[i] * p[n]) ** 2 for i in range(n)), (p[n] * q[n]) ** 2


@case("C09", "dist.point.point.2d", names("p", 3) + names("q", 3), mode="real", functions=FUN, timeout=120, max_paths=64, also=("C03",), share=True)
def dist_pp_2d(ctx):
    geometer, go = _g()
    p, q = ctx.vec("p", 3), ctx.vec("q", 3)
    ctx.assume(ctx.neg(ctx.zero(p[2])))
    ctx.assume(ctx.neg(ctx.zero(q[2])))
    with ctx.stubs():
        d = go.dist(geometer.Point(p), geometer.Point(q))
        d2 = go.dist(geometer.Point(q), geometer.Point(p))
    num, den = _d2_points(tolist(p), tolist(q))
    ctx.ensure("dist^2==cartesian", ctx.zero(_sq(ctx, d) * den - num, scale=None if ctx.symbolic else abs(num) + 1e-9))
    ctx.ensure("dist>=0", (d >= 0) if ctx.symbolic else bool(d >= 0))
    ctx.ensure("symmetric", ctx.zero(_sq(ctx, d) - _sq(ctx, d2), scale=None if ctx.symbolic else 1 + abs(float(d)) ** 2))
    ctx.ensure("zero<=>same-point", ctx.iff(ctx.zero(_sq(ctx, d)), ctx.minors_zero(p, q)))


@case("C09", "dist.point.infinity.2d", names("p", 3) + names("q", 2), mode="real", functions=FUN, timeout=60, max_paths=64)
def dist_p_inf(ctx):
    geometer, go = _g()
    p, q = ctx.vec("p", 3), ctx.vec("q", 2)
    ctx.assume(ctx.neg(ctx.zero(p[2])))
    ctx.assume(ctx.neg(ctx.conj([ctx.zero(q[0]), ctx.zero(q[1])])))
    with ctx.stubs():
        d = go.dist(geometer.Point(p), geometer.Point(np.append(q, [0])))
    if ctx.symbolic:
        from gvc.sym import Sym

        inner = getattr(d, "inner", d)
        ctx.ensure("infinite-when-exactly-one-point-at-infinity", isinstance(inner, Sym) and inner.special == "inf")
    else:
        ctx.ensure("infinite-when-exactly-one-point-at-infinity", bool(np.isinf(d)))


@case("C09", "dist.line.point.2d", names("l", 3) + names("p", 3), mode="real",
      functions=FUN + ["geometer.point.SubspaceTensor.project", "geometer.point.LineTensor.perpendicular", "geometer.point.LineTensor.mirror"],
      timeout=120, max_paths=200, explore_time=900)
def dist_lp_2d(ctx):
    geometer, go = _g()
    l, p = ctx.vec("l", 3), ctx.vec("p", 3)
    ctx.assume(ctx.neg(ctx.zero(p[2])))
    ctx.assume(ctx.neg(ctx.conj([ctx.zero(l[0]), ctx.zero(l[1])])))  # a finite line
    L, P = geometer.Line(l), geometer.Point(p)
    lp = dot(tolist(l), tolist(p))
    nn = l[0] * l[0] + l[1] * l[1]
    for tag, args in (("line-point", (L, P)), ("point-line", (P, L))):
        with ctx.stubs():
            d = go.dist(*args)
        ctx.ensure("%s:dist^2==(l.p)^2/(|n|^2 pz^2)" % tag, ctx.zero(_sq(ctx, d) * nn * p[2] * p[2] - lp * lp, scale=None if ctx.symbolic else abs(lp * lp) + 1e-9))
        ctx.ensure("%s:zero<=>incident" % tag, ctx.iff(ctx.zero(_sq(ctx, d)), ctx.zero(lp)))


@case("C09", "dist.plane.point.3d", names("e", 4) + names("p", 4), mode="real",
      functions=FUN + ["geometer.point.SubspaceTensor.project", "geometer.point.PlaneTensor.perpendicular"], timeout=180, max_paths=200, explore_time=900,
      assumptions=["3D point-point distance goes through orth() (SVD leaf): here replaced by its contract 'orthonormal basis of the span' - see dist.point.point.3d"],
      tier="experimental")
def dist_ep_3d(ctx):
    geometer, go = _g()
    e, p = ctx.vec("e", 4), ctx.vec("p", 4)
    ctx.assume(ctx.neg(ctx.zero(p[3])))
    ctx.assume(ctx.neg(ctx.conj([ctx.zero(e[0]), ctx.zero(e[1]), ctx.zero(e[2])])))
    with ctx.stubs(orth=True):
        d = go.dist(geometer.Plane(e), geometer.Point(p))
    ep = dot(tolist(e), tolist(p))
    nn = e[0] * e[0] + e[1] * e[1] + e[2] * e[2]
    ctx.ensure("dist^2==(e.p)^2/(|n|^2 pz^2)", ctx.zero(_sq(ctx, d) * nn * p[3] * p[3] - ep * ep, scale=None if ctx.symbolic else abs(ep * ep) + 1e-9))


# ---------------------------------------------------------------------------------------------- angle


def _log_arg(ctx, val):
    """the argument z of the log in  Re(1/(2i) * log(z))  produced by the real function (symbolic mode)"""
    from gvc.snp import LogSym

    if isinstance(val, LogSym):
        return val
    arr = np.asarray(val, dtype=object)
    return arr.reshape(-1)[0]


@case("C09", "angle.points.2d", names("a", 3) + names("b", 3) + names("c", 3), mode="real", functions=["geometer.operators.angle", "geometer.operators.crossratio"],
      timeout=120, max_paths=64,
      assumptions=["np.log leaf: only the identity  Re(log(w)/(2i)) = arg(w)/2 (mod pi)  of the complex logarithm is used (Laguerre)"])
def angle_points(ctx):
    """angle(a, b, c) = -arg(z) (mod pi) with z = u.v + i det(u, v), u = b - a, v = c - a: the value w fed to the logarithm
    satisfies  w * z == conj(z)  (so w = exp(-2 i arg z)), for arbitrary finite representatives"""
    geometer, go = _g()
    a, b, c = (ctx.vec(k, 3) for k in "abc")
    for v in (a, b, c):
        ctx.assume(ctx.neg(ctx.zero(v[2])))
    ctx.assume(ctx.neg(ctx.minors_zero(a, b)))
    ctx.assume(ctx.neg(ctx.minors_zero(a, c)))
    A, B, C = (geometer.Point(v) for v in (a, b, c))
    ux, uy = b[0] * a[2] - a[0] * b[2], b[1] * a[2] - a[1] * b[2]  # (b - a) * az*bz
    vx, vy = c[0] * a[2] - a[0] * c[2], c[1] * a[2] - a[1] * c[2]
    # orientation-correct: divide by the positive/negative scale factors -> use u/(az bz), v/(az cz): signs matter only mod pi... they cancel in w
    re, im = ux * vx + uy * vy, ux * vy - uy * vx
    if ctx.symbolic:
        from gvc.sym import Sym, cur

        with ctx.stubs():
            r = go.angle(A, B, C)
            r2 = go.angle(A, C, B)
        w, w2 = _log_arg(ctx, r), _log_arg(ctx, r2)
        I = Sym(cur().I, cur().one)
        z, zc = re + I * im, re - I * im
        ctx.ensure("log-factor-is-1/(2i)-real-part", bool(w.is_real_part) and ctx.zero(w.factor * 2 * I - 1))
        ctx.ensure("laguerre:w*z==conj(z)", ctx.zero(w.arg * z - zc))
        ctx.ensure("antisymmetric:w(a,b,c)*w(a,c,b)==1", ctx.zero(w.arg * w2.arg - 1))
    else:
        import cmath

        r = float(go.angle(A, B, C))
        r2 = float(go.angle(A, C, B))
        # fix the scale signs: true directions
        u = ((b[0] / b[2] - a[0] / a[2]), (b[1] / b[2] - a[1] / a[2]))
        v = ((c[0] / c[2] - a[0] / a[2]), (c[1] / c[2] - a[1] / a[2]))
        z = complex(u[0] * v[0] + u[1] * v[1], u[0] * v[1] - u[1] * v[0])
        want = -cmath.phase(z)
        diff = (r - want + np.pi / 2) % np.pi - np.pi / 2
        ctx.ensure("log-factor-is-1/(2i)-real-part", True)
        ctx.ensure("laguerre:w*z==conj(z)", abs(diff) < 1e-6)
        ctx.ensure("antisymmetric:w(a,b,c)*w(a,c,b)==1", abs(((r + r2) + np.pi / 2) % np.pi - np.pi / 2) < 1e-6)


# ---------------------------------------------------------------------------------------------- bounded 3D


@case("C09", "dist.3d.lattice", [], kind="bounded", functions=FUN + ["geometer.point.SubspaceTensor.basis_matrix", "geometer.utils.math.orth"],
      bound="3D: pairs of points of {-1,0,2}^3 (scaled representatives), 36 lattice planes x 14 points, parallel plane pairs with rescaled/negated representatives; "
            "3D angles for 21 direction pairs at 4 positions (three points, two lines) and two planes; 9 pairs of parallel planes")
def dist_3d_lattice(ctx):
    import geometer as g
    from geometer.operators import dist
    import math

    pts = list(itertools.product((-1, 0, 2), repeat=3))
    for k, (p, q) in enumerate(itertools.combinations(pts, 2)):
        if k % 3:
            continue
        s1, s2 = (1, -2)[k % 2], (3, 0.5)[(k // 2) % 2]
        d = dist(g.Point(np.array(p + (1,), dtype=float) * s1), g.Point(np.array(q + (1,), dtype=float) * s2))
        ctx.ensure("point-point", abs(d - math.dist(p, q)) < 1e-6, witness=dict(p=p, q=q, scales=(s1, s2), got=float(d)))
    normals = [(0, 0, 1), (1, 0, 0), (0, 1, 0), (1, 1, 0), (1, -1, 2), (2, 1, 2), (1, 2, 3), (-1, 0, 1), (0, 2, -1), (3, 0, 4), (1, 1, 1), (2, -2, 1)]
    for n in normals:
        nn = math.sqrt(sum(x * x for x in n))
        for off in (-3, 0, 2):
            e = g.Plane(*n, off)
            for p in pts[::2]:
                want = abs(sum(a * b for a, b in zip(n, p)) + off) / nn
                d = dist(e, g.Point(*p))
                ctx.ensure("plane-point", abs(d - want) < 1e-6, witness=dict(plane=n + (off,), p=p, got=float(d), want=want))
                ctx.ensure("point-plane-symmetric", abs(dist(g.Point(*p), e) - want) < 1e-6, witness=dict(plane=n + (off,), p=p))
            for off2, sc2 in ((-1, 1), (5, 1), (-1, -2), (4, -1)):
                try:
                    d = dist(e, g.Plane(*[x * sc2 for x in n], off2 * sc2))
                    ok = abs(d - abs(off - off2) / nn) < 1e-6
                    got = float(d)
                except RecursionError:
                    ok, got = False, "RecursionError"
                ctx.ensure("parallel-planes(any-representative)", ok, witness=dict(plane1=n + (off,), plane2=n + (off2,), scale2=sc2, got=got, want=abs(off - off2) / nn))
    # angles in 3-space: three points / two lines / two planes, at several positions (translation invariance)
    import math as _m
    from geometer.operators import angle

    def ang(u, v):
        c = sum(a * b for a, b in zip(u, v)) / _m.sqrt(sum(a * a for a in u) * sum(b * b for b in v))
        return _m.acos(max(-1.0, min(1.0, c)))

    dirs = [(1, 0, 0), (0, 1, 0), (1, 1, 0), (1, 1, 1), (1, -2, 2), (0, 3, 4), (2, 1, -1)]
    for u, v in itertools.combinations(dirs, 2):
        want = ang(u, v)
        for o in [(0, 0, 0), (3, -7, 2), (-4, 1, 9), (0, 0, 5)]:
            a = g.Point(*o)
            b = g.Point(*[x + y for x, y in zip(o, u)])
            c = g.Point(*[x + y for x, y in zip(o, v)])
            got = abs(float(angle(a, b, c)))
            ok = min(abs(got - want), abs(got - (_m.pi - want))) < 1e-6
            ctx.ensure("angle-3d:three-points(mod-pi,translation-invariant)", ok, witness=dict(vertex=o, u=u, v=v, got=got, want=want))
            got = abs(float(angle(g.Line(a, b), g.Line(a, c))))
            ok = min(abs(got - want), abs(got - (_m.pi - want))) < 1e-6
            ctx.ensure("angle-3d:two-lines", ok, witness=dict(vertex=o, u=u, v=v, got=got, want=want))
        e1 = g.Plane(*u, 1)
        e2 = g.Plane(*v, -2)
        got = abs(float(np.real(angle(e1, e2))))
        ok = min(abs(got - want), abs(got - (_m.pi - want))) < 1e-6
        ctx.ensure("angle-3d:two-planes", ok, witness=dict(n1=u, n2=v, got=got, want=want))
    # two parallel planes enclose the angle 0 (mod pi)
    for n_ in ((1, 2, 2), (0, 0, 1), (1, -1, 0)):
        for (c1, c2, f) in ((-3, 1, 2), (0, 5, -1), (2, 3, 1)):
            try:
                got = abs(float(np.real(angle(g.Plane(*n_, c1), g.Plane(*[f * x for x in n_], c2)))))
                ok = min(got, abs(got - _m.pi)) < 1e-6
            except Exception as ex:
                ok, got = False, type(ex).__name__
            ctx.ensure("angle-3d:two-parallel-planes-enclose-0", ok, witness=dict(e=n_ + (c1,), f=tuple(f * x for x in n_) + (c2,), got=got))


@case("C09", "dist.point.point.3d", names("p", 3) + names("q", 3), mode="real", functions=FUN, timeout=240, max_paths=64, spare=40, xcheck=False,
      assumptions=["geometer.utils.math.orth (SVD leaf) replaced by its relational contract: orthonormal columns spanning the range (contracts/stubs.py orth_stub); "
                   "the SVD itself is not verified"])
def dist_pp_3d(ctx):
    """3D point-point distance through the orthonormal-basis reduction, for all finite points (affine coordinates)"""
    geometer, go = _g()
    p, q = ctx.vec("p", 3), ctx.vec("q", 3)
    ctx.assume(ctx.neg(ctx.conj([ctx.zero(p[i] - q[i]) for i in range(3)])))
    with ctx.stubs(orth=True):
        d = go.dist(geometer.Point(p[0], p[1], p[2]), geometer.Point(q[0], q[1], q[2]))
    want = sum((p[i] - q[i]) ** 2 for i in range(3))
    ctx.ensure("dist^2==cartesian", ctx.zero(_sq(ctx, d) - want, scale=None if ctx.symbolic else 1 + abs(want)))


@case("C09", "dist.polytopes.lattice", [], kind="bounded",
      functions=["geometer.operators.dist", "geometer.shapes.SegmentTensor.contains", "geometer.shapes.PolygonTensor.contains", "geometer.point.SubspaceTensor.project"],
      bound="point-segment (2D: 6 segments x 49 grid points; 3D: 4 segments x 27 points; 4 segments x 4 pairs of end-point representatives x 9 / 27 points), point-polygon (2D: 3 polygons incl. a non-convex one x 81 grid points, interior points included; "
            "3D: the same polygons under 5 rigid motions x 36 points above/beside/in the plane), point-cuboid (exterior points), both argument orders; closed-form Euclidean oracle")
def dist_polytopes_lattice(ctx):
    import itertools
    import math

    import geometer as g
    from geometer.operators import dist
    from geometer.shapes import Segment, Polygon, Cuboid
    from geometer.transformation import rotation, translation

    def seg_dist(a, b, p):
        a, b, p = (np.asarray(v, dtype=float) for v in (a, b, p))
        t = np.dot(p - a, b - a) / np.dot(b - a, b - a)
        t = min(1.0, max(0.0, t))
        return float(np.linalg.norm(a + t * (b - a) - p))

    def inside(vs, q):
        # crossing number with boundary = inside
        n = len(vs)
        for i in range(n):
            if seg_dist(vs[i], vs[(i + 1) % n], q) < 1e-12:
                return True
        c = False
        for i in range(n):
            (x1, y1), (x2, y2) = vs[i], vs[(i + 1) % n]
            if (y1 > q[1]) != (y2 > q[1]) and q[0] < (x2 - x1) * (q[1] - y1) / (y2 - y1) + x1:
                c = not c
        return c

    def poly_dist(vs, q):
        if inside(vs, q):
            return 0.0
        return min(seg_dist(vs[i], vs[(i + 1) % len(vs)], q) for i in range(len(vs)))

    grid = [x * 1.5 - 3 for x in range(7)]
    for a, b in [((0, 0), (4, 0)), ((1, 1), (1, 5)), ((-2, 3), (3, -1)), ((0, 0), (3, 4)), ((2, 2), (-1, -3)), ((-3, -3), (-2.5, -3))]:
        S = Segment(g.Point(*a), g.Point(*b))
        for q in itertools.product(grid, repeat=2):
            want = seg_dist(a, b, q)
            got = [float(dist(S, g.Point(*q))), float(dist(g.Point(*q), S))]
            ctx.ensure("point-segment-2d", all(abs(x - want) < 1e-7 * (1 + want) for x in got), witness=dict(segment=(a, b), point=q, got=got, want=want))
    for a, b in [((0, 0, 0), (4, 0, 0)), ((1, 1, 1), (1, 5, -2)), ((-2, 3, 1), (3, -1, 2)), ((0, 0, 0), (2, 3, 6))]:
        S = Segment(g.Point(*a), g.Point(*b))
        for q in itertools.product((-2.0, 1.0, 3.5), repeat=3):
            want = seg_dist(a, b, q)
            got = [float(dist(S, g.Point(*q))), float(dist(g.Point(*q), S))]
            ctx.ensure("point-segment-3d", all(abs(x - want) < 1e-7 * (1 + want) for x in got), witness=dict(segment=(a, b), point=q, got=got, want=want))
    # end points given by other homogeneous representatives (scaled, negative), 2D and 3D
    for a, b in [((0, 0), (4, 0)), ((-2, 3), (3, -1)), ((0, 0, 0), (4, 0, 0)), ((1, 1, 1), (1, 5, -2))]:
        for ka, kb in ((-2.0, 1.0), (1.0, 3.0), (-1.0, -0.5), (2.0, -4.0)):
            S = Segment(g.Point(np.array(list(a) + [1.0]) * ka), g.Point(np.array(list(b) + [1.0]) * kb))
            for q in itertools.product((-2.0, 1.0, 3.5), repeat=len(a)):
                want = seg_dist(a, b, q)
                got = [float(dist(S, g.Point(*q))), float(dist(g.Point(*q), S)), float(dist(S, g.Point(np.array(list(q) + [1.0]) * -3.0)))]
                ctx.ensure("point-segment:any-representative-of-the-end-points", all(abs(x - want) < 1e-7 * (1 + want) for x in got), witness=dict(segment=(a, b), scales=(ka, kb), point=q, got=got, want=want))
    polys = [[(0, 0), (4, 0), (4, 4), (0, 4)], [(0, 0), (4, 1), (1, 4)], [(0, 0), (4, 0), (4, 4), (2, 1), (0, 4)]]
    pgrid = [x - 2.0 for x in range(9)]
    for vs in polys:
        P = Polygon(*[g.Point(*v) for v in vs])
        for q in itertools.product(pgrid, repeat=2):
            want = poly_dist(vs, q)
            got = [float(dist(P, g.Point(*q))), float(dist(g.Point(*q), P))]
            ctx.ensure("point-polygon-2d(zero-inside)", all(abs(x - want) < 1e-7 * (1 + want) for x in got), witness=dict(polygon=vs, point=q, got=got, want=want))
    motions = [translation(0, 0, 0), translation(1, 2, 3), rotation(0.7, axis=g.Point(1, 0, 0)), rotation(1.1, axis=g.Point(1, 2, 3)) * translation(0, 0, 2),
               translation(5, -2, -2) * rotation(math.pi / 2, axis=g.Point(0, 1, 0))]
    for vs in polys:
        for mi, t in enumerate(motions):
            P = t * Polygon(*[g.Point(x, y, 0) for x, y in vs])
            for (x, y) in [(1, 1), (3, 0.5), (2, 2), (-1, 1), (5, 5), (0.5, 3.5), (4, 4), (2, 1), (6, 2)]:
                for h in (0.0, 2.0, -1.5, 0.25):
                    d2 = poly_dist(vs, (x, y))
                    want = math.hypot(d2, h)
                    q = t * g.Point(x, y, h)
                    got = [float(np.real(dist(P, q))), float(np.real(dist(q, P)))]
                    ctx.ensure("point-polygon-3d", all(abs(v - want) < 1e-6 * (1 + want) for v in got), witness=dict(polygon=vs, motion=mi, point=(x, y, h), got=got, want=want))
    cube = Cuboid(g.Point(0, 0, 0), g.Point(2, 0, 0), g.Point(0, 2, 0), g.Point(0, 0, 2))
    for q in itertools.product((-1.0, 1.0, 3.5), repeat=3):
        if all(0 <= c <= 2 for c in q):
            continue
        want = math.sqrt(sum(max(0.0, -c, c - 2) ** 2 for c in q))
        got = [float(np.real(dist(cube, g.Point(*q)))), float(np.real(dist(g.Point(*q), cube)))]
        ctx.ensure("point-cuboid(exterior)", all(abs(v - want) < 1e-6 * (1 + want) for v in got), witness=dict(point=q, got=got, want=want))

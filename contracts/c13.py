"""C13 / C14 / C15: quadric constructors, quadric-line intersection, tangents / polars / duals, degenerate quadrics."""
from __future__ import annotations

import itertools

import numpy as np

from gvc.harness import case, names
from contracts import geo
from contracts.geo import dot, tolist

EIG = ["np.linalg.eigvalsh leaf: the eigenvalues enter only through the strictly positive normalisation scalar (gvc/snp.py seigvalsh)"]


def _g():
    import geometer
    import geometer.curve as gc

    return geometer, gc


def _qform(M, p):
    M, p = tolist(M), tolist(p)
    return dot(p, geo.matvec(M, p))


def _symm(ctx, prefix, n):
    Q = np.empty((n, n), dtype=object if ctx.symbolic else float)
    for i in range(n):
        for j in range(n):
            Q[i, j] = ctx.sym("%s%d%d" % (prefix, min(i, j), max(i, j)))
    if ctx.symbolic:
        from gvc.snp import wrap

        Q = wrap(Q)
    return Q


def _symm_names(prefix, n):
    return ["%s%d%d" % (prefix, i, j) for i in range(n) for j in range(i, n)]


# ================================================================================================ C13


@case("C13", "conic.from_points", names("a", 3) + names("b", 3) + names("c", 3) + names("d", 3) + names("e", 3), mode="real",
      functions=["geometer.curve.Conic.from_points", "geometer.curve.QuadricTensor.__init__"], assumptions=EIG, timeout=120, max_paths=64)
def conic_from_points(ctx):
    geometer, gc = _g()
    pts = [ctx.vec(k, 3) for k in "abcde"]
    for v in pts:
        ctx.assume(ctx.neg(ctx.zero(v[2])))  # finite points (normalised coordinates are used by the constructor)
    with ctx.stubs():
        C = gc.Conic.from_points(*[geometer.Point(v) for v in pts])
    ctx.ensure("kind", type(C) is gc.Conic and tuple(C.shape) == (3, 3) and C.is_dual is False)
    ctx.ensure("symmetric-matrix", ctx.conj([ctx.zero(C.array[i][j] - C.array[j][i], scale=None if ctx.symbolic else 1.0) for i in range(3) for j in range(i)]))
    for k, v in zip("abcde", pts):
        ctx.ensure("contains-%s" % k, ctx.zero(_qform(C.array, v), scale=None if ctx.symbolic else float(np.abs(C.array).max() * (np.abs(v) ** 2).sum()) + 1e-12))


@case("C13", "conic.from_crossratio", names("a", 3) + names("b", 3) + names("c", 3) + names("d", 3) + names("e", 3), mode="field",
      functions=["geometer.curve.Conic.from_crossratio", "geometer.utils.math.adjugate"], assumptions=EIG, timeout=180, max_paths=64)
def conic_from_crossratio(ctx):
    """the conic {x : cr_x(a,b,c,d) = cr} passes through a, b, c, d and through every e whose cross ratio of the four points is cr"""
    geometer, gc = _g()
    a, b, c, d, e = (ctx.vec(k, 3) for k in "abcde")
    la, lb, lc, ld, le = (tolist(v) for v in (a, b, c, d, e))
    br = lambda x, y: geo.det([le, x, y])
    den = br(la, ld) * br(lb, lc)
    ctx.assume(ctx.neg(ctx.zero(den)))
    cr = br(la, lc) * br(lb, ld) / den
    with ctx.stubs():
        C = gc.Conic.from_crossratio(cr, *[geometer.Point(v) for v in (a, b, c, d)])
    for k, v in zip("abcd", (a, b, c, d)):
        ctx.ensure("contains-%s" % k, ctx.zero(_qform(C.array, v), scale=None if ctx.symbolic else 1.0))
    ctx.ensure("contains-the-point-that-sees-the-cross-ratio", ctx.zero(_qform(C.array, e), scale=None if ctx.symbolic else 1.0))


@case("C13", "conic.from_lines.planes.matrix", names("g", 3) + names("h", 3) + names("e", 4) + names("f", 4), mode="real",
      functions=["geometer.curve.Conic.from_lines", "geometer.curve.QuadricTensor.from_planes"], assumptions=EIG, timeout=60, also=("C15",))
def from_lines_matrix(ctx):
    geometer, gc = _g()
    g, h, e, f = ctx.vec("g", 3), ctx.vec("h", 3), ctx.vec("e", 4), ctx.vec("f", 4)
    with ctx.stubs():
        C = gc.Conic.from_lines(geometer.Line(g), geometer.Line(h))
        Q = gc.Quadric.from_planes(geometer.Plane(e), geometer.Plane(f))
    lg, lh, le, lf = tolist(g), tolist(h), tolist(e), tolist(f)
    ctx.ensure("conic-matrix~g h^T + h g^T", ctx.minors_zero(C.array, [[lg[i] * lh[j] + lh[i] * lg[j] for j in range(3)] for i in range(3)]))
    ctx.ensure("quadric-matrix~e f^T + f e^T", ctx.minors_zero(Q.array, [[le[i] * lf[j] + lf[i] * le[j] for j in range(4)] for i in range(4)]))
    ctx.ensure("C15:from_lines-is_degenerate", bool(C.is_degenerate), prop="C15")
    ctx.ensure("C15:from_planes-is_degenerate", bool(Q.is_degenerate), prop="C15")


@case("C13", "ellipse.circle.sphere", ["cx", "cy", "cz", "h", "v", "x", "y", "z", "w", "s"], mode="real", also=("C03",), share=True,
      functions=["geometer.curve.Ellipse.__init__", "geometer.curve.Circle.__init__", "geometer.curve.Sphere.__init__", "geometer.curve.Circle.radius",
                 "geometer.curve.Circle.area", "geometer.curve.Sphere.radius", "geometer.curve.Sphere.center", "geometer.curve.Sphere.volume", "geometer.curve.Sphere.area"],
      timeout=120, max_paths=200)
def ellipse_circle_sphere(ctx):
    """p^T M p == k * ((x-cx)^2/h^2 + (y-cy)^2/v^2 - 1) * w^2 with k != 0: exactly the Cartesian locus; read-backs return the parameters"""
    import math

    geometer, gc = _g()
    cx, cy, cz, h, v, x, y, z, w = (ctx.sym(k) for k in ("cx", "cy", "cz", "h", "v", "x", "y", "z", "w"))
    ctx.assume(h > 0)
    ctx.assume(v > 0)
    ctx.assume(ctx.neg(ctx.zero(w)))
    # the centre is given by an arbitrary homogeneous representative s * (cx, cy, 1), s != 0 (also negative)
    s = ctx.sym("s")
    ctx.assume(ctx.neg(ctx.zero(s)))
    sq = (lambda t: t ** 2) if ctx.symbolic else (lambda t: float(t) ** 2)
    with ctx.stubs():
        E = gc.Ellipse(geometer.Point(np.array([cx * s, cy * s, s])), h, v)
    p = [x * w, y * w, w]
    val = _qform(E.array, p)
    locus = ((x - cx) ** 2 * v * v + (y - cy) ** 2 * h * h - h * h * v * v) * w * w
    # proportional with a non-zero factor: val * locus_coeff == locus * val_coeff -> compare via the (0,0) entry: M00 = k * v^2... use M[0][0] = k*v^2/(h^2 v^2)
    k = E.array[0][0]  # coefficient of x^2: k * v^2 with the normalisation used by the constructor
    ctx.ensure("ellipse:locus", ctx.conj([ctx.zero(val * v * v - k * locus, scale=None if ctx.symbolic else 1 + abs(k * locus)), ctx.neg(ctx.zero(k))]))
    with ctx.stubs():
        Ci = gc.Circle(geometer.Point(np.array([cx * s, cy * s, s])), h)
    valc = _qform(Ci.array, p)
    kc = Ci.array[0][0]
    ctx.ensure("circle:locus", ctx.conj([ctx.zero(valc - kc * ((x - cx) ** 2 + (y - cy) ** 2 - h * h) * w * w, scale=None if ctx.symbolic else 1 + abs(valc)), ctx.neg(ctx.zero(kc))]))
    r = Ci.radius
    ctx.ensure("circle:radius-reads-back", ctx.conj([ctx.zero(sq(r) - h * h, scale=None if ctx.symbolic else 1 + h * h), (r >= 0) if ctx.symbolic else bool(r >= 0)]))
    ar = Ci.area
    ctx.ensure("circle:area==pi*r^2", ctx.zero(ar - np.pi * h * h, scale=None if ctx.symbolic else 1 + h * h))
    with ctx.stubs():
        Sp = gc.Sphere(geometer.Point(np.array([cx * s, cy * s, cz * s, s])), h)
    p3 = [x * w, y * w, z * w, w]
    vals = _qform(Sp.array, p3)
    ks = Sp.array[0][0]
    ctx.ensure("sphere:locus", ctx.conj([ctx.zero(vals - ks * ((x - cx) ** 2 + (y - cy) ** 2 + (z - cz) ** 2 - h * h) * w * w, scale=None if ctx.symbolic else 1 + abs(vals)), ctx.neg(ctx.zero(ks))]))
    rs = Sp.radius
    ctx.ensure("sphere:radius-reads-back", ctx.zero(sq(rs) - h * h, scale=None if ctx.symbolic else 1 + h * h))
    c = Sp.center
    ctx.ensure("sphere:center-reads-back", ctx.conj([isinstance(c, geometer.Point), ctx.proj_eq(c.array, [cx, cy, cz, 1])]))
    # textbook measures as functions of the radius read back (alpha(3) = 4/3 pi)
    vol, sa = Sp.volume, Sp.area
    if ctx.symbolic:
        r3 = rs ** 3
        ctx.ensure("sphere:volume==4/3*pi*r^3", ctx.zero(vol - (math.pi ** 1.5 / math.gamma(2.5)) * r3))
        ctx.ensure("sphere:area==4*pi*r^2", ctx.zero(sa - 3 * (math.pi ** 1.5 / math.gamma(2.5)) * (rs ** 2)))
        ctx.ensure("sphere:alpha(3)==4/3*pi", abs(math.pi ** 1.5 / math.gamma(2.5) - 4 / 3 * math.pi) < 1e-12)
    else:
        ctx.ensure("sphere:volume==4/3*pi*r^3", abs(vol - 4 / 3 * math.pi * abs(h) ** 3) < 1e-6 * (1 + abs(h) ** 3))
        ctx.ensure("sphere:area==4*pi*r^2", abs(sa - 4 * math.pi * h * h) < 1e-6 * (1 + h * h))
        ctx.ensure("sphere:alpha(3)==4/3*pi", True)


# ================================================================================================ C14


def _tangent_case(dim):
    n = dim + 1

    @case("C14", "tangent.polar.dual.%dd" % dim, _symm_names("m", n) + names("p", n) + names("q", n), mode="field",
          functions=["geometer.curve.QuadricTensor.tangent", "geometer.curve.QuadricTensor.is_tangent", "geometer.curve.QuadricTensor.dual", "geometer.curve.QuadricTensor.contains",
                     "geometer.curve.Conic.polar"],
          assumptions=["np.linalg.inv leaf = adj/det"], timeout=180, max_paths=64)
    def _(ctx):
        geometer, gc = _g()
        M = _symm(ctx, "m", n)
        p, q = ctx.vec("p", n), ctx.vec("q", n)
        detM = geo.det(tolist(M))
        ctx.assume(ctx.neg(ctx.zero(detM)))
        Q = gc.Conic(M) if dim == 2 else gc.Quadric(M)
        P, Qp = geometer.Point(p), geometer.Point(q)
        t = Q.tangent(P) if dim == 3 else gc.QuadricTensor.tangent(Q, P)
        tt = tolist(t.array)
        ctx.ensure("tangent(at)-is-the-polar-hyperplane-M.at", ctx.conj([ctx.zero(tt[i] - geo.matvec(tolist(M), tolist(p))[i]) for i in range(n)]))
        ctx.ensure("tangent(at).at==at^T-M-at (contains the point iff it lies on the quadric)", ctx.zero(dot(tt, tolist(p)) - _qform(M, p)))
        # pole/polar reciprocity
        tq = tolist((Q.tangent(Qp) if dim == 3 else gc.QuadricTensor.tangent(Q, Qp)).array)
        ctx.ensure("polar-reciprocity", ctx.zero(dot(tt, tolist(q)) - dot(tq, tolist(p))))
        if dim == 2:
            pl = Q.polar(P)
            ctx.ensure("Conic.polar==M.p", ctx.conj([isinstance(pl, geometer.Line)] + [ctx.zero(pl.array[i] - tt[i]) for i in range(3)]))
        D = Q.dual
        ctx.ensure("dual:kind-and-flag", isinstance(D, gc.QuadricTensor) and D.is_dual is True and D.tensor_shape == (2, 0))
        ctx.ensure("dual:matrix~adjugate", ctx.conj([ctx.zero(D.array[i][j] * detM - geo.adjugate(tolist(M))[i][j]) for i in range(n) for j in range(n)]))
        DD = D.dual
        ctx.ensure("dual.dual==self", ctx.conj([DD.is_dual is False, DD.tensor_shape == (0, 2)] + [ctx.zero(DD.array[i][j] - tolist(M)[i][j]) for i in range(n) for j in range(n)]))
        # the tangent hyperplane at a point is tangent: h = M p  =>  h^T adj(M) h == det(M) * p^T M p
        hvec = geo.matvec(tolist(M), tolist(p))
        lhs = dot(hvec, geo.matvec(geo.adjugate(tolist(M)), hvec))
        ctx.ensure("lemma:(Mp)^T-adj(M)-(Mp)==det(M)*p^T-M-p", ctx.zero(lhs - detM * _qform(M, p)))
        H = (geometer.Line if dim == 2 else geometer.Plane)(q)
        it = Q.is_tangent(H)
        spec = ctx.zero(dot(tolist(q), geo.matvec(geo.adjugate(tolist(M)), tolist(q))))
        ctx.ensure("is_tangent(h)<=>h^T-adj(M)-h==0", ctx.iff(ctx.conj([it]) if ctx.symbolic else bool(it), spec))


_tangent_case(2)
_tangent_case(3)


@case("C14", "dual.every.class", ["cx", "cy", "cz", "r"], mode="real",
      functions=["geometer.curve.QuadricTensor.dual", "geometer.curve.QuadricTensor.is_tangent"], timeout=120, max_paths=64)
def dual_every_class(ctx):
    """dual / is_tangent must work for instances of the subclasses with their own constructor signature"""
    geometer, gc = _g()
    cx, cy, cz, r = (ctx.sym(k) for k in ("cx", "cy", "cz", "r"))
    ctx.assume(r > 0)
    with ctx.stubs():
        objs = [("Circle", gc.Circle(geometer.Point(cx, cy), r)), ("Ellipse", gc.Ellipse(geometer.Point(cx, cy), r, 2 * r)), ("Sphere", gc.Sphere(geometer.Point(cx, cy, cz), r))]
    for name, q in objs:
        try:
            D = q.dual
            ok = isinstance(D, gc.QuadricTensor) and D.is_dual is True
        except (AttributeError, TypeError) as e:
            ok = False
        ctx.ensure("%s.dual-works" % name, ok)
    # a circle is touched by the line x = cx + r
    with ctx.stubs():
        c = gc.Circle(geometer.Point(cx, cy), r)
    try:
        it = c.is_tangent(geometer.Line(1, 0, -(cx + r)))
        ok = bool(it)
    except (AttributeError, TypeError):
        ok = False
    ctx.ensure("Circle.is_tangent(touching-line)", ok)


@case("C14", "conic.intersect.line", _symm_names("m", 3) + names("l", 3), mode="field",
      functions=["geometer.curve.QuadricTensor.intersect", "geometer.curve.QuadricTensor.components", "geometer.utils.math.hat_matrix", "geometer.utils.math.adjugate"],
      assumptions=["csqrt leaf: a generator b with b**2 == radicand (either branch)"], timeout=240, max_paths=400, explore_time=900)
def conic_intersect_line(ctx):
    """every returned point lies on the line and on the conic (complex points included); non-degenerate conic"""
    geometer, gc = _g()
    M = _symm(ctx, "m", 3)
    l = ctx.vec("l", 3)
    ctx.assume(ctx.neg(ctx.zero(geo.det(tolist(M)))))
    ctx.assume(ctx.neg(ctx.all_zero(l)))
    with ctx.stubs():
        pts = gc.Conic(M).intersect(geometer.Line(l))
    ctx.ensure("one-or-two-points", len(pts) in (1, 2))
    for k, x in enumerate(pts):
        xx = tolist(x.array)
        ctx.ensure("point-on-the-line", ctx.zero(dot(tolist(l), xx)))
        ctx.ensure("point-on-the-conic", ctx.zero(_qform(M, xx)))
        ctx.ensure("point-nonzero", ctx.neg(ctx.all_zero(x.array)))


# ================================================================================================ C15


@case("C15", "components.from_lines", names("g", 3) + names("h", 3), mode="field",
      functions=["geometer.curve.QuadricTensor.components", "geometer.curve.Conic.from_lines", "geometer.utils.math.adjugate", "geometer.utils.math.hat_matrix"],
      assumptions=EIG + ["csqrt leaf: a generator b with b**2 == radicand (either branch)"], timeout=240, max_paths=400, explore_time=900)
def components_from_lines(ctx):
    geometer, gc = _g()
    g, h = ctx.vec("g", 3), ctx.vec("h", 3)
    ctx.assume(ctx.neg(ctx.minors_zero(g, h)))
    with ctx.stubs():
        C = gc.Conic.from_lines(geometer.Line(g), geometer.Line(h))
        comp = C.components
    ctx.ensure("two-components", len(comp) == 2 and all(isinstance(c, geometer.Line) for c in comp))
    p, q = comp
    ctx.ensure("components-are-the-two-lines", ctx.disj([ctx.conj([ctx.proj_eq(p.array, g), ctx.proj_eq(q.array, h)]),
                                                         ctx.conj([ctx.proj_eq(p.array, h), ctx.proj_eq(q.array, g)])]))


@case("C15", "components.lattice", [], kind="bounded", functions=["geometer.curve.QuadricTensor.components", "geometer.curve.QuadricTensor.from_planes", "geometer.curve.Conic.intersect"],
      bound="pairs of distinct planes with coordinates in {-2,-1,1,2} (every 97th pair), all pairs of distinct lines with coordinates in {-2,...,2} (zeros included); conic pairs: 12 circle/ellipse/hyperbola pairs with known common points")
def components_lattice(ctx):
    import geometer as g
    from geometer.curve import Quadric, Conic
    from geometer.exceptions import NotReducible

    vals = (-2, -1, 1, 2)
    planes = list(itertools.product(vals, repeat=4))
    k = 0
    for e, f in itertools.combinations(planes, 2):
        k += 1
        if k % 97:
            continue
        E, F = g.Plane(*e), g.Plane(*f)
        if E == F:
            continue
        try:
            comp = Quadric.from_planes(E, F).components
            ok = len(comp) == 2 and ((comp[0] == E and comp[1] == F) or (comp[0] == F and comp[1] == E))
            got = [c.array.tolist() for c in comp]
        except NotReducible:
            ok, got = False, "NotReducible"
        ctx.ensure("from_planes-components-are-the-two-planes", ok, witness=dict(e=e, f=f, got=got), excuse=("KF-C15-1", None))
    lines = [v for v in itertools.product((-2, -1, 0, 1, 2), repeat=3) if any(v)]
    for gl, hl in itertools.combinations(lines, 2):
        G, H = g.Line(*gl), g.Line(*hl)
        if G == H:
            continue
        comp = Conic.from_lines(G, H).components
        # the zero vector compares equal to everything: reject it explicitly
        ok = len(comp) == 2 and all(np.abs(c.array).max() > 1e-9 for c in comp) and ((comp[0] == G and comp[1] == H) or (comp[0] == H and comp[1] == G))
        ctx.ensure("from_lines-components-are-the-two-lines", ok, witness=dict(g=gl, h=hl, got=[c.array.tolist() for c in comp]))
    nd = Quadric(np.diag([1, 1, 1, -1]))
    try:
        nd.components
        ok = False
    except NotReducible:
        ok = True
    ctx.ensure("non-degenerate-quadric-not-reducible", ok and not bool(nd.is_degenerate), witness="unit sphere")


@case("C13", "constructors.lattice", [], kind="bounded", also=("C03",),
      functions=["geometer.curve.Conic.from_tangent", "geometer.curve.Conic.from_foci", "geometer.curve.Conic.foci", "geometer.curve.Circle.center", "geometer.curve.Sphere.__init__",
                 "geometer.curve.Ellipse.__init__", "geometer.curve.Cone.__init__", "geometer.curve.Cylinder.__init__"],
      bound="spheres/circles/ellipses with INTEGER-typed centres and fractional radii (dtype handling), 24 points of each locus; from_tangent for the 24 orders of 4 circle points "
            "and 3 tangents; from_foci for 6 ellipses/hyperbolas; cones/cylinders for the 26 lattice axis directions x 2 vertices x 2 radii")
def constructors_lattice(ctx):
    import math

    import geometer as g
    from geometer.curve import Sphere, Circle, Ellipse, Conic, Cone, Cylinder

    def on(q, p, scale=1.0):
        p = np.asarray(p, dtype=float)
        return abs(p @ np.asarray(q.array, dtype=float) @ p) < 1e-7 * scale * float(np.abs(q.array).max())

    angles = [2 * math.pi * k / 12 + 0.1 for k in range(12)]
    for c in [(0, 0, 0), (1, 2, 3), (-2, 0, 5)]:
        for r in (1, 2.5, 0.5, 1.5):
            s = Sphere(g.Point(*c), r)
            okp = all(on(s, [c[0] + r * math.cos(a) * math.cos(b), c[1] + r * math.sin(a) * math.cos(b), c[2] + r * math.sin(b), 1], 1 + r * r + sum(x * x for x in c))
                      for a in angles[::2] for b in (-1.0, 0.0, 0.4, 1.2))
            ctx.ensure("sphere:integer-centre-fractional-radius:locus", okp and not on(s, [c[0], c[1], c[2], 1]), witness=dict(center=c, radius=r, matrix=s.array.tolist()))
            ctx.ensure("sphere:radius-volume-area-read-back", abs(s.radius - r) < 1e-9 and abs(s.volume - 4 / 3 * math.pi * r ** 3) < 1e-7 * (1 + r ** 3) and abs(s.area - 4 * math.pi * r * r) < 1e-7 * (1 + r * r),
                       witness=dict(center=c, radius=r, got=(float(s.radius), float(s.volume), float(s.area))))
    for c in [(0, 0), (3, -1)]:
        for r in (1, 2.5, 0.5):
            ci = Circle(g.Point(*c), r)
            ctx.ensure("circle:integer-centre-fractional-radius:locus", all(on(ci, [c[0] + r * math.cos(a), c[1] + r * math.sin(a), 1], 1 + r * r + c[0] ** 2 + c[1] ** 2) for a in angles),
                       witness=dict(center=c, radius=r))
            ctx.ensure("circle:center-radius-area-read-back", np.allclose(np.real(ci.center.normalized_array[:2]), c, atol=1e-6) and abs(ci.radius - r) < 1e-9 and abs(ci.area - math.pi * r * r) < 1e-7 * (1 + r * r),
                       witness=dict(center=c, radius=r))
            e = Ellipse(g.Point(*c), r, 2 * r)
            ctx.ensure("ellipse:locus", all(on(e, [c[0] + r * math.cos(a), c[1] + 2 * r * math.sin(a), 1], 1 + 4 * r * r + c[0] ** 2 + c[1] ** 2) for a in angles), witness=dict(center=c, radius=r))
    cp = [(1, 0), (-1, 0), (0, -1), (0.6, -0.8)]
    for tangent, kf in [(g.Line(0, 1, -1), None), (g.Line(3, 4, -5), None), (g.Line(2, 1, -4), None), (g.Line(1, 1, -3), ("KF-C13-2", None))]:
        for order in itertools.permutations(range(4)):
            P = [g.Point(*cp[i]) for i in order]
            try:
                co = Conic.from_tangent(tangent, *P)
                ok = all(bool(co.contains(p)) for p in P) and bool(co.is_tangent(tangent))
                got = "ok" if ok else np.asarray(co.array).tolist()
            except Exception as e:
                ok, got = False, "%s: %s" % (type(e).__name__, e)
            ctx.ensure("from_tangent:contains-the-points-and-touches-the-line" + ("(known-bad-configuration)" if kf else ""), ok,
                       witness=dict(tangent=tangent.array.tolist(), order=order, got=got), excuse=kf)
    # tangents in special position (coordinate axes, through the origin): the bracket reference point general_point is chosen by a fallback sequence
    for (a_, b_, c_), centre in [((1, 0, 0), (2.0, 1.0)), ((0, 1, 0), (1.0, -3.0)), ((1, -1, 0), (3.0, 0.0)), ((1, 2, 0), (1.0, 1.0)), ((-2, 0, 0), (-1.5, 2.0)), ((0, 3, 0), (0.5, 2.0)),
                               ((1, 0, -1), (3.0, 3.0)), ((1, 1, 0), (2.0, 2.0))]:
        tangent = g.Line(a_, b_, c_)
        r = abs(a_ * centre[0] + b_ * centre[1] + c_) / math.hypot(a_, b_)
        P = [g.Point(centre[0] + r * math.cos(t), centre[1] + r * math.sin(t)) for t in (0.35, 1.45, 2.9, 4.4)]
        try:
            co = Conic.from_tangent(tangent, *P)
            # two conics pass through four points and touch a line: either is accepted, the zero matrix is not
            ok = np.abs(co.array).max() > 1e-9 and all(_on_conic(co, x) for x in P) and bool(co.is_tangent(tangent))
            got = np.round(np.asarray(co.array, dtype=complex), 4).tolist()
        except Exception as e:
            ok, got = False, "%s: %s" % (type(e).__name__, e)
        ctx.ensure("from_tangent:tangent-in-special-position", ok, witness=dict(tangent=(a_, b_, c_), centre=centre, radius=r, got=str(got)[:300]))
    # representative independence of from_tangent (C03): negating / rescaling one defining point or the tangent
    gp = [(1.0, 0.5), (-1.5, 0.25), (0.25, -1.0), (0.8, -0.9)]
    for tangent in [g.Line(0.3, 1, -1.7), g.Line(3, 4, -9)]:
        base = Conic.from_tangent(tangent, *[g.Point(*q) for q in gp])
        for k in range(4):
            for sc in (-1.0, 2.0, -0.5):
                P = [g.Point(np.array([q[0], q[1], 1.0]) * (sc if i == k else 1.0)) for i, q in enumerate(gp)]
                try:
                    co = Conic.from_tangent(tangent, *P)
                    ok = bool(co == base)
                except Exception as e:
                    ok = False
                ctx.ensure("C03:from_tangent:independent-of-the-representatives", ok, witness=dict(tangent=tangent.array.tolist(), point=k, scale=sc), prop="C03")
        co = Conic.from_tangent(g.Line(-2 * tangent.array), *[g.Point(*q) for q in gp])
        ctx.ensure("C03:from_tangent:independent-of-the-representatives", bool(co == base), witness=dict(tangent="negated"), prop="C03")
    for f1, f2, b in [((-1, 0), (1, 0), (0, 1)), ((0, 0), (4, 0), (2, 3)), ((1, 1), (3, 2), (0, 5)), ((-2, 1), (2, -1), (3, 3)), ((0, 0), (0, 6), (1, 3)), ((-1, 0), (1, 0), (3, 0.5))]:
        try:
            co = Conic.from_foci(g.Point(*f1), g.Point(*f2), g.Point(*b))
            fo = co.foci
            got = sorted(tuple(np.round(np.real(f.normalized_array[:2]), 6)) for f in fo)
            ok = bool(co.contains(g.Point(*b))) and len(fo) == 2 and np.allclose(got, sorted([tuple(map(float, f1)), tuple(map(float, f2))]), atol=1e-5)
        except Exception as e:
            ok, got = False, "%s: %s" % (type(e).__name__, e)
        ctx.ensure("from_foci:has-the-foci-and-passes-through-the-boundary-point", ok, witness=dict(f1=f1, f2=f2, bound=b, got=str(got)), excuse=("KF-C13-2", None))
    dirs = [d for d in itertools.product((-1, 0, 1), repeat=3) if any(d)]
    for d in dirs:
        u = np.array(d, dtype=float) / np.linalg.norm(d)
        # two unit vectors orthogonal to the axis
        w = np.cross(u, [1, 0, 0]) if abs(u[0]) < 0.9 else np.cross(u, [0, 1, 0])
        w = w / np.linalg.norm(w)
        w2 = np.cross(u, w)
        for v in [(0, 0, 0), (1, -2, 3)]:
            for r in (1, 0.5):
                V = np.array(v, dtype=float)
                w_ = dict(vertex=v, axis=d, radius=r)
                try:
                    cone = Cone(g.Point(*v), g.Point(*(V + 2 * u)), r)
                    okc = all(on(cone, list(V + h * u + (r * h / 2) * (math.cos(a) * w + math.sin(a) * w2)) + [1], 20) for h in (-1, 0.5, 2, 3) for a in angles[::3])
                    okc = okc and not on(cone, list(V + 1.0 * u) + [1], 20)
                except Exception as e:
                    okc = False
                    w_ = dict(w_, error="%s: %s" % (type(e).__name__, e))
                ctx.ensure("cone:locus", okc, witness=w_, excuse=("KF-C13-1", None))
                try:
                    cyl = Cylinder(g.Point(*v), g.Point(*d), r)
                    oky = all(on(cyl, list(V + h * u + r * (math.cos(a) * w + math.sin(a) * w2)) + [1], 20) for h in (-2, 0, 1.5) for a in angles[::3])
                    oky = oky and not on(cyl, list(V + 0.7 * u) + [1], 20)
                except Exception as e:
                    oky = False
                    w_ = dict(w_, error="%s: %s" % (type(e).__name__, e))
                ctx.ensure("cylinder:locus", oky, witness=w_, excuse=("KF-C13-1", None))


def _on_conic(c, x, rel=1e-8):
    A = np.asarray(c.array, dtype=complex)
    v = np.asarray(x.array, dtype=complex)
    return abs(v @ A @ v) <= rel * np.abs(A).max() * np.abs(v).max() ** 2


@case("C15", "conic.conic.lattice", [], kind="bounded", functions=["geometer.curve.Conic.intersect", "geometer.utils.math.roots", "geometer.curve.QuadricTensor.components"],
      bound="30 pairs of conics through 4 common lattice points in general position (each conic fixed by a fifth point), plus circle/ellipse pairs with 2 and 0 real common points")
def conic_conic_lattice(ctx):
    import geometer as g
    from geometer.curve import Conic, Circle, Ellipse

    quads = [[(0, 0), (4, 0), (1, 3), (5, 2)], [(1, 1), (-2, 0), (0, -3), (3, -1)], [(0, 2), (2, 0), (-3, 1), (1, -4)], [(-1, -1), (2, 3), (4, -2), (0, 5)], [(2, 2), (-2, 1), (-1, -3), (3, -2)]]
    fifth = [(7, 7), (-5, 6), (6, -5), (-4, -6), (1, 9), (9, 1)]
    for Q in quads:
        for e1, e2 in itertools.combinations(fifth, 2):
            try:
                c1 = Conic.from_points(*[g.Point(*p) for p in Q], g.Point(*e1))
                c2 = Conic.from_points(*[g.Point(*p) for p in Q], g.Point(*e2))
                if bool(c1.is_degenerate) or bool(c2.is_degenerate) or c1 == c2:
                    continue
                pts = c1.intersect(c2)
                on_both = all(_on_conic(c1, x) and _on_conic(c2, x) for x in pts)
                found = all(any(x == g.Point(*p) for x in pts) for p in Q)
                ok = len(pts) <= 4 and on_both and found
                got = [np.round(np.asarray(x.normalized_array, dtype=complex), 4).tolist() for x in pts]
            except Exception as e:
                ok, got = False, "%s: %s" % (type(e).__name__, e)
            ctx.ensure("conic-x-conic:the-four-common-points", ok, witness=dict(common=Q, fifth=(e1, e2), got=str(got)[:300]))
    for (c, r, c2_, r2) in [((0, 0), 2, (3, 0), 2), ((0, 0), 2, (1, 1), 1.5), ((1, -1), 3, (2, 2), 1)]:
        a, b = Circle(g.Point(*c), r), Circle(g.Point(*c2_), r2)
        try:
            pts = a.intersect(b)
            real = [x for x in pts if bool(x.isreal) and not bool(x.isinf)]
            dcc = float(np.hypot(c[0] - c2_[0], c[1] - c2_[1]))
            want_real = 2 if abs(r - r2) < dcc < r + r2 else 0
            ok = len(pts) <= 4 and all(_on_conic(a, x) and _on_conic(b, x) for x in pts) and len(real) == want_real
            got = len(real)
        except Exception as e:
            ok, got = False, "%s: %s" % (type(e).__name__, e)
        ctx.ensure("circle-x-circle:real-common-points", ok, witness=dict(c1=(c, r), c2=(c2_, r2), got=got))
        # the same pair with other homogeneous representatives of the matrices (the cubic resolvent scales with the sixth power)
        for f1, f2 in ((100.0, 1.0), (-100.0, 1.0), (1.0, 0.02), (-3.0, 50.0)):
            try:
                a2, b2 = Conic(np.asarray(a.array) * f1), Conic(np.asarray(b.array) * f2)
                pts = a2.intersect(b2)
                real = [x for x in pts if bool(x.isreal) and not bool(x.isinf)]
                ok = len(pts) <= 4 and all(_on_conic(a, x) and _on_conic(b, x) for x in pts) and len(real) == want_real
                got = len(real)
            except Exception as e:
                ok, got = False, "%s: %s" % (type(e).__name__, e)
            ctx.ensure("circle-x-circle:independent-of-the-representatives-of-the-matrices", ok, witness=dict(c1=(c, r), c2=(c2_, r2), factors=(f1, f2), got=got))


def _quadric_line_fixtures():
    import geometer as g
    from geometer.curve import Quadric, Sphere, Cone, Cylinder

    out = []
    out.append(("sphere", Sphere(g.Point(0, 0, 0), 3), [(1, 2, 2), (2, 1, 2), (2, 2, 1), (3, 0, 0), (-1, 2, 2), (0, 0, -3), (2, -2, 1)]))
    out.append(("sphere.offcentre", Sphere(g.Point(1, -1, 2), 3), [(2, 1, 4), (3, 0, 4), (3, 1, 3), (4, -1, 2), (1, -1, -1), (0, 1, 4)]))
    out.append(("cone.matrix", Quadric(np.diag([1, 1, -1, 0])), [(3, 4, 5), (4, 3, 5), (0, 1, 1), (1, 0, -1), (5, 12, 13), (-3, 4, -5)]))
    out.append(("cone.class", Cone(g.Point(0, 0, 0), g.Point(0, 0, 1), 1), [(3, 4, 5), (4, 3, 5), (0, 1, 1), (1, 0, -1), (5, 12, 13), (-3, 4, -5)]))
    out.append(("cylinder.class", Cylinder(g.Point(0, 0, 0), g.Point(0, 0, 1), 5), [(3, 4, 0), (4, 3, 2), (5, 0, -1), (0, 5, 3), (-3, 4, 1), (-4, -3, 7)]))
    out.append(("hyperboloid", Quadric(np.diag([1, 1, -1, -1])), [(1, 0, 0), (0, 1, 0), (1, 1, 1), (1, -1, 1), (-1, 0, 0), (1, 1, -1), (5, 5, 7)]))
    out.append(("ellipsoid.generic", Quadric([[2, 1, 0, 0], [1, 3, 0, 0], [0, 0, 1, 0], [0, 0, 0, -7]]), [(1, 1, 0), (-1, -1, 0), (0, 1, 2), (0, -1, -2), (-2, 1, 0), (1, -1, 2), (-1, 1, -2)]))
    out.append(("planes", Quadric.from_planes(g.Plane(1, 2, 3, 4), g.Plane(4, 3, 2, 1)), [(-4, 0, 0), (0, -2, 0), (0, 1, -2), (1, -1, -1), (0, 0, -0.5), (-1, 1, 0)]))
    return out


def _on_quadric(Q, x, rel=1e-7):
    A = np.asarray(Q.array, dtype=complex)
    v = np.asarray(x.array, dtype=complex)
    if np.abs(v).max() == 0:
        return False
    return abs(v @ A @ v) <= rel * np.abs(A).max() * np.abs(v).max() ** 2


def _on_line_through(p, q, x, rel=1e-7):
    m = np.array([list(p) + [1], list(q) + [1], np.asarray(x.array, dtype=complex)], dtype=complex)
    m = m / np.abs(m).max(axis=1, keepdims=True)
    sv = np.linalg.svd(m, compute_uv=False)
    return sv[2] <= rel * sv[0]


def _same_point(x, p, rel=1e-6):
    a = np.asarray(x.array, dtype=complex)
    b = np.array(list(p) + [1], dtype=complex)
    m = np.array([a / np.abs(a).max(), b / np.abs(b).max()])
    sv = np.linalg.svd(m, compute_uv=False)
    return sv[1] <= rel * sv[0]


@case("C14", "quadric.line.3d.lattice", [], kind="bounded",
      functions=["geometer.curve.QuadricTensor.intersect", "geometer.curve.QuadricTensor.components", "geometer.point.SubspaceTensor._matrix_transform", "geometer.point.PlaneTensor.basis_matrix"],
      bound="8 quadrics in 3D (2 spheres, cone by matrix and by class, cylinder, one-sheeted hyperboloid, ellipsoid with a mixed term, pair of planes) x all secants through pairs of "
            "6-7 known rational points each, 2 tangents of the sphere, 3 lines missing the sphere; collections: every pair of quadrics (also mixing reducible and irreducible degenerate ones) "
            "x LineCollection and x single Line")
def quadric_line_3d_lattice(ctx):
    import geometer as g
    from geometer.curve import QuadricCollection

    fx = _quadric_line_fixtures()
    singles = {}
    for name, Q, pts in fx:
        for p, q in itertools.combinations(pts, 2):
            mid = g.Point(*[(a + b) / 2.0 for a, b in zip(p, q)])
            if _on_quadric(Q, mid):
                continue  # the line lies on the (ruled) quadric
            L = g.Line(g.Point(*p), g.Point(*q))
            w = dict(quadric=name, line=(p, q))
            try:
                res = Q.intersect(L)
            except Exception as e:
                ctx.ensure("secant:no-exception", False, witness=dict(w, exception="%s: %s" % (type(e).__name__, e)))
                continue
            w["got"] = str([np.round(np.asarray(x.array, dtype=complex), 4).tolist() for x in res])[:300]
            ctx.ensure("secant:points-on-both", len(res) <= 2 and all(_on_quadric(Q, x) and _on_line_through(p, q, x) for x in res), witness=w)
            ctx.ensure("secant:returns-the-two-known-points", all(any(_same_point(x, k) for x in res) for k in (p, q)), witness=w)
            singles[(name, p, q)] = res
    S = fx[0][1]
    for (p, d) in [((1, 2, 2), (2, -1, 0)), ((3, 0, 0), (0, 1, 1))]:
        q = tuple(a + b for a, b in zip(p, d))
        res = S.intersect(g.Line(g.Point(*p), g.Point(*q)))
        ctx.ensure("tangent:only-the-contact-point", 1 <= len(res) <= 2 and all(_same_point(x, p, 1e-4) for x in res), witness=dict(at=p, direction=d, got=str([x.array.tolist() for x in res])[:300]))
    for (p, q) in [((5, 0, 0), (5, 1, 1)), ((0, 4, 4), (1, 4, 4)), ((-4, -4, 0), (-4, -3, 7))]:
        res = S.intersect(g.Line(g.Point(*p), g.Point(*q)))
        ok = len(res) == 2 and all(_on_quadric(S, x) and _on_line_through(p, q, x) for x in res) and not any(bool(np.all(x.isreal)) for x in res)
        ctx.ensure("missing:two-complex-points-on-both", ok, witness=dict(line=(p, q), got=str([np.asarray(x.array).tolist() for x in res])[:300]))
    # collections: element k of the result is the intersection of element k
    for (n1, Q1, P1), (n2, Q2, P2) in itertools.combinations(fx, 2):
        pairs1 = [k for k in singles if k[0] == n1][:2]
        pairs2 = [k for k in singles if k[0] == n2][:2]
        for k1, k2 in zip(pairs1, pairs2):
            w = dict(quadrics=(n1, n2), lines=(k1[1:], k2[1:]))
            QC = QuadricCollection([Q1.array, Q2.array])
            LC = g.LineCollection([g.Line(g.Point(*k1[1]), g.Point(*k1[2])).array, g.Line(g.Point(*k2[1]), g.Point(*k2[2])).array])
            try:
                res = QC.intersect(LC)
                ok = len(res) == 2
                for idx, (Q, k) in enumerate(((Q1, k1), (Q2, k2))):
                    el = [r[idx] for r in res]
                    ok = ok and all(_on_quadric(Q, x) and _on_line_through(k[1], k[2], x) for x in el) and all(any(_same_point(x, kp) for x in el) for kp in k[1:])
                w["got"] = str([np.round(np.asarray(r.array, dtype=complex), 3).tolist() for r in res])[:300]
            except Exception as e:
                ok = False
                w["exception"] = "%s: %s" % (type(e).__name__, e)
            ctx.ensure("collection:elementwise-the-two-known-points", ok, witness=w)
        # single line through a common known point pair is rarely available: use one line of Q1 against both quadrics and only demand points on both
        k1 = pairs1[0]
        L = g.Line(g.Point(*k1[1]), g.Point(*k1[2]))
        w = dict(quadrics=(n1, n2), line=k1[1:])
        try:
            res = QuadricCollection([Q1.array, Q2.array]).intersect(L)
            ok = len(res) <= 2
            for idx, Q in enumerate((Q1, Q2)):
                el = [r[idx] for r in res]
                ok = ok and all(_on_quadric(Q, x) and _on_line_through(k1[1], k1[2], x) for x in el if np.abs(np.asarray(x.array)).max() > 0)
            el0 = [r[0] for r in res]
            ok = ok and all(any(_same_point(x, kp) for x in el0) for kp in k1[1:])
        except Exception as e:
            ok = False
            w["exception"] = "%s: %s" % (type(e).__name__, e)
        ctx.ensure("collection-x-single-line:points-on-both", ok, witness=w)


@case("C14", "conic.line.2d.lattice", [], kind="bounded", also=("C15",), share=True,
      functions=["geometer.curve.QuadricTensor.intersect", "geometer.curve.QuadricTensor.components", "geometer.curve.QuadricTensor.tangent", "geometer.curve.QuadricTensor.is_tangent"],
      bound="6 conics (circles, ellipse, hyperbola, parabola, line pair) x 3 homogeneous representatives of the matrix (1, -1, -2.5) x all secants through pairs of 5-6 known rational points, "
            "tangents at the known points, 3 missing lines; degenerate conics decomposed, then moved, then decomposed again")
def conic_line_2d_lattice(ctx):
    import geometer as g
    from geometer.curve import Conic, Circle
    from geometer.transformation import translation, rotation

    fx = [
        ("circle", np.array([[1.0, 0, 0], [0, 1, 0], [0, 0, -25]]), [(3, 4), (4, 3), (5, 0), (0, -5), (-3, 4), (-4, -3)]),
        ("unit-circle", np.array([[1.0, 0, 0], [0, 1, 0], [0, 0, -1]]), [(1, 0), (0, 1), (-1, 0), (0, -1), (0.6, 0.8), (-0.8, 0.6)]),
        ("ellipse", np.array([[1.0, 0, 0], [0, 4, 0], [0, 0, -4]]), [(2, 0), (0, 1), (-2, 0), (0, -1), (1.2, 0.8), (-1.6, 0.6)]),
        ("hyperbola", np.array([[0.0, 0.5, 0], [0.5, 0, 0], [0, 0, -1]]), [(1, 1), (2, 0.5), (0.5, 2), (-1, -1), (-4, -0.25)]),
        ("parabola", np.array([[1.0, 0, 0], [0, 0, -0.5], [0, -0.5, 0]]), [(0, 0), (1, 1), (-1, 1), (2, 4), (-3, 9)]),
    ]
    for name, A, pts in fx:
        for scale in (1.0, -1.0, -2.5):
            C = Conic(A * scale)
            w0 = dict(conic=name, scale=scale)
            for p, q in itertools.combinations(pts, 2):
                L = g.Line(g.Point(*p), g.Point(*q))
                w = dict(w0, line=(p, q))
                try:
                    res = C.intersect(L)
                    ok = len(res) <= 2 and all(np.abs(x.array).max() > 1e-9 and _on_conic(C, x) for x in res) and all(any(_same_point(x, k) for x in res) for k in (p, q))
                    w["got"] = str([np.round(np.asarray(x.array, dtype=complex), 4).tolist() for x in res])[:200]
                except Exception as e:
                    ok = False
                    w["exception"] = "%s: %s" % (type(e).__name__, str(e)[:100])
                ctx.ensure("secant:returns-the-two-known-points(any-representative-of-the-matrix)", ok, witness=w)
            for p in pts[:4]:
                P = g.Point(*p)
                try:
                    t = C.tangent(P)
                    res = C.intersect(t)
                    ok = bool(t.contains(P)) and bool(C.is_tangent(t)) and 1 <= len(res) <= 2 and all(_same_point(x, p, 1e-4) for x in res)
                except Exception as e:
                    ok = False
                ctx.ensure("tangent:touches-at-the-point-only(any-representative-of-the-matrix)", ok, witness=dict(w0, at=p))
    # degenerate conics: components before and after a motion (derived state must not leak), any representative
    for (l1, l2) in [((1, 0, 0), (0, -1, 0)), ((1, -1, 0), (1, 1, -2)), ((-1, -1, -2), (1, 0, 0)), ((0, 1, -3), (2, 1, 1))]:
        for scale in (1.0, -1.0):
            G, H = g.Line(*l1), g.Line(*l2)
            C = Conic(np.asarray(Conic.from_lines(G, H).array) * scale)
            w = dict(lines=(l1, l2), scale=scale)
            try:
                comp = C.components
                ok = len(comp) == 2 and all(np.abs(c.array).max() > 1e-9 for c in comp) and ((comp[0] == G and comp[1] == H) or (comp[0] == H and comp[1] == G))
                for t in (translation(2, -1), rotation(0.8) * translation(1, 1)):
                    tc = t * C
                    tcomp = tc.components
                    tg, th = t * G, t * H
                    ok = ok and len(tcomp) == 2 and all(np.abs(c.array).max() > 1e-9 for c in tcomp) and ((tcomp[0] == tg and tcomp[1] == th) or (tcomp[0] == th and tcomp[1] == tg))
                    circ = Circle(g.Point(0, 0), 5)
                    pts_ = circ.intersect(tc)
                    ok = ok and all(_on_conic(tc, x) and _on_conic(circ, x) for x in pts_)
            except Exception as e:
                ok = False
                w["exception"] = "%s: %s" % (type(e).__name__, str(e)[:100])
            ctx.ensure("degenerate-conic:components-before-and-after-a-motion", ok, witness=w, prop=("C15", "C14"))

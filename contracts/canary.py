"""Canaries: deliberately false contracts over the real code, one per back end.  Every check run must
refute them with a witness that replays natively; a canary that verifies means the engine would accept
false contracts (exit 3)."""
from __future__ import annotations

import numpy as np

from contracts import INDEX, geo
from contracts.geo import tolist
from gvc.harness import case, names


def _alg(ctx):
    import geometer

    p, q, r = (geometer.Point(ctx.vec(n, 3)) for n in "pqr")
    ctx.assume(ctx.neg(ctx.minors_zero(p.array, q.array)))
    with ctx.stubs():
        l = geometer.join(p, q)
    ctx.ensure("FALSE:join(p,q)-contains-a-third-point", ctx.zero(geo.dot(tolist(l), tolist(r))))


def _smt(ctx):
    import geometer.utils.math as um

    A = ctx.arr("a", 2, 2)
    d = um.det(A)
    ctx.ensure("FALSE:det-of-a-real-2x2-matrix-is-non-negative", d >= 0 if ctx.symbolic else bool(d >= 0))


for _p in sorted(INDEX):
    case(_p, "canary.alg", names("p", 3) + names("q", 3) + names("r", 3), mode="field", kind="canary")(_alg)
    case(_p, "canary.smt", names("a", 2, 2), mode="real", kind="canary")(_smt)

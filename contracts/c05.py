"""C05: TensorDiagram (add_node / add_edge / calculate) against the Einstein sum it denotes, with
symbolic tensor entries, over an enumerated set of diagram structures; LeviCivitaTensor and
KroneckerDelta entry by entry against their definitions."""
from __future__ import annotations

import itertools
import random

import numpy as np

from gvc.harness import case, names
from contracts import geo
from contracts.geo import tolist, perm_sign

FUN = ["geometer.base.TensorDiagram.__init__", "geometer.base.TensorDiagram.add_node", "geometer.base.TensorDiagram.add_edge",
       "geometer.base.TensorDiagram.calculate", "geometer.base.Tensor.__init__"]


def _b():
    import geometer.base as gb
    from geometer.exceptions import TensorComputationError

    return gb, TensorComputationError


# ---------------------------------------------------------------------------------------------
# specification: the Einstein sum of a diagram


def spec_diagram(nodes, edges):
    """nodes: dict id -> (nested list array, pattern, dims); pattern: string over f (leading collection axes), c, v.
    edges: list of (source id, target id).
    returns ('error',) or ('ok', result dict index->value, shape, n_free, n_cov, n_con, node order)"""
    order = []
    unused = {}

    def add(k):
        if k not in unused:
            pat = nodes[k][1]
            unused[k] = ([i for i, ch in enumerate(pat) if ch == "c"], [i for i, ch in enumerate(pat) if ch == "v"])
            order.append(k)

    pairs = []
    for s, t in edges:
        add(s)
        add(t)
        if not unused[s][0] or not unused[t][1]:
            return ("error", "no index left")
        i = unused[s][0].pop(0)
        j = unused[t][1].pop(0)
        if nodes[s][2][i] != nodes[t][2][j]:
            return ("error", "dimension mismatch")
        pairs.append(((s, i), (t, j)))
    # labels
    label = {}
    parent = {}

    def find(x):
        while parent.get(x, x) != x:
            x = parent[x]
        return x

    for a, b in pairs:
        ra, rb = find(a), find(b)
        if ra != rb:
            parent[rb] = ra
    nf = {k: nodes[k][1].count("f") for k in order}
    maxf = max(nf.values()) if order else 0
    free_dims = [1] * maxf
    for k in order:
        for a in range(nf[k]):
            g = maxf - nf[k] + a
            parent[(k, a)] = ("F", g)
            d = nodes[k][2][a]
            if d != 1:
                if free_dims[g] not in (1, d):
                    return ("error", "free dims")
                free_dims[g] = d
    res_axes = [("F", g) for g in range(maxf)]
    cov_axes = [(k, i) for k in order for i in unused[k][0]]
    con_axes = [(k, i) for k in order for i in unused[k][1]]
    res_axes += cov_axes + con_axes
    dims = {}
    for k in order:
        for i, d in enumerate(nodes[k][2]):
            r = find((k, i))
            if r[0] == "F":
                dims[r] = free_dims[r[1]]
            else:
                dims[r] = d
    for g in range(maxf):
        dims[("F", g)] = free_dims[g]
    labels = sorted(dims, key=str)
    result = {}
    shape = tuple(dims[find(a)] for a in res_axes)
    for vals in itertools.product(*[range(dims[l]) for l in labels]):
        env = dict(zip(labels, vals))
        term = 1
        for k in order:
            arr = nodes[k][0]
            for i, d in enumerate(nodes[k][2]):
                v = env[find((k, i))]
                arr = arr[v if d != 1 else 0]
            term = term * arr
        idx = tuple(env[find(a)] for a in res_axes)
        result[idx] = result.get(idx, 0) + term
    return ("ok", result, shape, maxf, len(cov_axes), len(con_axes), order)


# ---------------------------------------------------------------------------------------------

PATTERNS_SMALL = ["c", "v", "cc", "cv", "vc", "vv", "fc", "fv", "fcv", "fvc", "ffc", "ffv"]
PATTERNS_R3 = ["ccc", "ccv", "cvc", "vcc", "cvv", "vcv", "vvc", "vvv", "fcc", "fvv", "ffcv"]


def _mk_tensor(ctx, gb, name, pat, dims):
    if any(d != 2 for d in dims):
        # dimension-mismatch probes: concrete entries (the diagram must raise before any arithmetic)
        arr = np.arange(1, 1 + int(np.prod(dims))).reshape(dims) * (3 + len(name))
    else:
        arr = ctx.arr(name, *dims)
    ncoll = pat.count("f")
    rank = len(pat) - ncoll
    cov = [i - ncoll for i, ch in enumerate(pat) if ch == "c"]
    t = gb.Tensor(arr, covariant=cov, tensor_rank=rank)
    return t, arr


def _check_structure(ctx, struct):
    """struct: (node specs [(pattern, dims)], edge list [(s,t)])"""
    gb, TCE = _b()
    specs, edges = struct
    tens = {}
    nodes = {}
    for k, (pat, dims) in enumerate(specs):
        t, arr = _mk_tensor(ctx, gb, "t%d_" % k, pat, dims)
        tens[k] = t
        nodes[k] = (tolist(arr), pat, dims)
        # constructor contract: index types as requested
        ctx.ensure("Tensor.__init__-index-types", t._covariant_indices == {i for i, ch in enumerate(pat) if ch == "c"}
                   and t._contravariant_indices == {i for i, ch in enumerate(pat) if ch == "v"})
    sp = spec_diagram(nodes, edges)
    tag = "%s|%s" % (",".join(p for p, _ in specs), "".join("%d%d" % e for e in edges))
    try:
        d = gb.TensorDiagram(*[(tens[s], tens[t]) for s, t in edges])
    except TCE:
        ctx.ensure("raises-TensorComputationError-only-if-spec-error", sp[0] == "error", structure=tag)
        return
    ctx.ensure("returns-only-if-no-spec-error", sp[0] == "ok", structure=tag)
    if sp[0] != "ok":
        return
    _, result, shape, nfree, ncov, ncon, order = sp
    # data-structure invariant (well_formed) after construction
    ranks = [len(specs[k][0]) for k in order]
    ctx.ensure("invariant-nodes", len(d._nodes) == len(order) and all(d._nodes[i] is tens[k] for i, k in enumerate(order)))
    ctx.ensure("invariant-positions", d._node_positions == [sum(ranks[:i]) for i in range(len(order))] and d._index_count == sum(ranks))
    try:
        r = d.calculate()
    except Exception as e:  # free-dimension conflicts are reported by einsum as ValueError: outside the contract
        raise
    ctx.ensure("result-shape", tuple(r.shape) == tuple(shape), structure=tag)
    ctx.ensure("result-index-types", r.tensor_shape == (ncov, ncon) and r._covariant_indices == set(range(nfree, nfree + ncov))
               and r._contravariant_indices == set(range(nfree + ncov, nfree + ncov + ncon)), structure=tag)
    if tuple(r.shape) != tuple(shape):
        return
    arr = np.asarray(r.array, dtype=object) if ctx.symbolic else np.asarray(r.array)
    cl = []
    for idx, v in result.items():
        got = arr[idx] if arr.ndim else arr[()]
        cl.append(ctx.zero(got - v, scale=None if ctx.symbolic else 1 + abs(v)))
    ctx.ensure("value==einstein-sum", ctx.conj(cl), structure=tag)


def _dims_for(pat, d=2):
    return tuple(d for _ in pat)


def gen_structures_2nodes():
    out = []
    pats = PATTERNS_SMALL + PATTERNS_R3
    pairs = [(0, 0), (0, 1), (1, 0), (1, 1)]
    for pa in pats:
        for pb in pats:
            seqs = []
            for L in (1, 2, 3):
                for seq in itertools.product(pairs, repeat=L):
                    if seq[0][0] != 0 and seq[0][1] != 0:
                        continue  # node 0 appears in the first edge (canonical labelling)
                    seqs.append(seq)
            for seq in seqs:
                used = {x for e in seq for x in e}
                specs = [(pa, _dims_for(pa)), (pb, _dims_for(pb))]
                out.append((specs, list(seq)))
    return out


def gen_structures_3nodes(seed=7, count=600):
    rnd = random.Random(seed)
    pats = ["c", "v", "cc", "cv", "vc", "vv", "fc", "fv", "fcv", "ccv", "cvv"]
    out = []
    for _ in range(count):
        specs = []
        for k in range(3):
            p = rnd.choice(pats)
            dims = list(_dims_for(p))
            if rnd.random() < 0.15:
                # a tensor axis of a different dimension: dimension mismatch must raise
                ax = rnd.randrange(len(p))
                if p[ax] != "f":
                    dims[ax] = 3
            specs.append((p, tuple(dims)))
        L = rnd.choice([2, 3, 3, 4])
        edges = [(rnd.randrange(3), rnd.randrange(3)) for _ in range(L)]
        out.append((specs, edges))
    return out


def _symbols_for(nn):
    syms = []
    for k in range(nn):
        for n in range(1, 5):
            pass
    return syms


def _all_names(nn, maxrank=4, maxdim=2):
    out = set()
    for k in range(nn):
        for r in range(1, maxrank + 1):
            for idx in itertools.product(range(maxdim), repeat=r):
                out.add("t%d_" % k + "".join(str(i) for i in idx))
    return sorted(out)


_S2 = gen_structures_2nodes()
_S3 = gen_structures_3nodes()
_NCHUNK = 12


def _chunk_case(name, structs, nn, tier):
    @case("C05", name, _all_names(nn), mode="field", functions=FUN, tier=tier, spare=2, oracle=False, max_paths=4,
          assumptions=["ranks <= 4 per node here; the index ORDER of add_node for higher ranks is the bounded case add_node.order.highrank"])
    def _(ctx):
        for st in structs:
            _check_structure(ctx, st)


for _i in range(_NCHUNK):
    _chunk_case("diagram.2nodes.q%02d" % _i, _S2[_i::_NCHUNK * 6], 2, "quick")
    _chunk_case("diagram.2nodes.t%02d" % _i, [s for j, s in enumerate(_S2) if j % _NCHUNK == _i and (j // _NCHUNK) % 6 != 0], 2, "thorough")
for _i in range(4):
    _chunk_case("diagram.3nodes.q%02d" % _i, _S3[_i::4][:60], 3, "quick")
    _chunk_case("diagram.3nodes.t%02d" % _i, _S3[_i::4][60:], 3, "thorough")


@case("C05", "add_node.order.highrank", [], kind="bounded", functions=["geometer.base.TensorDiagram.add_node", "geometer.base.TensorDiagram.add_edge", "geometer.base.TensorDiagram.calculate"],
      bound="node ranks 0..20: every covariant subset for rank <= 11, 300 random subsets per rank above; extents 1 (order) and 2 on the contracted axes (value, ranks 9..12)")
def add_node_order_highrank(ctx):
    """'first still-unused index' must mean the smallest axis number for every rank (the per-node lists come from sets, whose iteration order is not
    ascending once an element reaches the hash-table size)"""
    gb, TCE = _b()
    rnd = random.Random(5)
    for r in range(0, 21):
        if r <= 11:
            subsets = [tuple(i for i in range(r) if m >> i & 1) for m in range(1 << r)]
        else:
            subsets = [tuple(sorted(rnd.sample(range(r), rnd.randint(0, r)))) for _ in range(300)]
        for cov in subsets:
            t = gb.Tensor(np.zeros((1,) * r), covariant=list(cov), tensor_rank=r) if r else gb.Tensor(np.zeros(()), tensor_rank=0)
            ind = gb.TensorDiagram().add_node(t)
            want = (list(cov), [i for i in range(r) if i not in cov])
            ctx.ensure("add_node:unused-index-lists-ascending", (list(ind[0]), list(ind[1])) == want, witness=dict(rank=r, covariant=cov, got=(list(ind[0]), list(ind[1]))))
    for r in range(9, 13):
        for _ in range(12):
            cov = sorted(rnd.sample(range(r), rnd.randint(2, 4)))
            con = [i for i in range(r) if i not in cov]
            shape = [1] * r
            for i in cov[:2] + con[:1]:
                shape[i] = 2
            a = gb.Tensor(rnd_int_array(rnd, shape), covariant=cov, tensor_rank=r)
            v = gb.Tensor(np.array([2, 3]), covariant=False)
            w = gb.Tensor(np.array([5, 7]), covariant=True)
            v2 = gb.Tensor(np.array([-1, 4]), covariant=False)
            got = gb.TensorDiagram((a, v), (a, v2), (w, a)).calculate()
            letters = "abcdefghijklmnopqrstuvwxyz"[:r]
            x, y, z = letters[cov[0]], letters[cov[1]], letters[con[0]]
            rest = [c for c in letters if c not in (x, y, z)]
            out = [letters[i] for i in cov[2:]] + [letters[i] for i in con[1:]]
            ref = np.einsum("%s,%s,%s,%s->%s" % (letters, x, y, z, "".join(out)), a.array, v.array, v2.array, w.array)
            ok = got.array.shape == ref.shape and np.array_equal(got.array, ref) and got._covariant_indices == set(range(len(cov) - 2))
            ctx.ensure("highrank:edges-use-the-first-unused-indices", ok, witness=dict(rank=r, covariant=cov, shape=shape))


def rnd_int_array(rnd, shape):
    n = int(np.prod(shape))
    return np.array([rnd.randint(-5, 5) for _ in range(n)]).reshape(shape)


def _safe(f):
    try:
        return f()
    except Exception as e:  # a library exception is a failing clause, not a crash of the harness
        return "%s: %s" % (type(e).__name__, str(e)[:100])


def _shape_of(x):
    return x if isinstance(x, str) else tuple(x.array.shape)


def _same_tensor(got, ref, tensor_shape):
    return (not isinstance(got, str)) and got.array.shape == ref.shape and np.array_equal(got.array, ref) and got.tensor_shape == tensor_shape


@case("C05", "diagram.free-axes.lattice", [], kind="bounded", functions=["geometer.base.TensorDiagram.calculate"],
      bound="2- and 3-node diagrams whose nodes carry 0..3 collection (free) axes each, right-aligned sub-shapes of (4, 2, 3) incl. length-1 axes; vector.vector, matrix.vector, "
            "matrix.matrix.vector and uncontracted products; oracle numpy einsum with ellipsis broadcasting")
def diagram_free_axes(ctx):
    """collection axes of the nodes broadcast like numpy (right-aligned) and come first in the result, in broadcast order"""
    gb, TCE = _b()
    rnd = random.Random(7)
    full = (4, 2, 3)
    variants = [full, (4, 1, 3), (1, 2, 1)]

    def mk(free, tshape, cov):
        shape = tuple(free) + tuple(tshape)
        arr = np.array([rnd.randint(-4, 4) for _ in range(int(np.prod(shape)) if shape else 1)]).reshape(shape)
        return gb.Tensor(arr, covariant=[i for i in cov], tensor_rank=len(tshape))

    for fa in range(4):
        for fb in range(4):
            for va in variants:
                for vb in variants:
                    sa, sb = va[3 - fa:], vb[3 - fb:]
                    try:
                        np.broadcast_shapes(sa, sb)
                    except ValueError:
                        continue
                    w = dict(free_a=sa, free_b=sb)
                    # covariant vector . contravariant vector
                    a, b = mk(sa, (3,), [0]), mk(sb, (3,), [])
                    ref = np.einsum("...i,...i->...", a.array, b.array)
                    got = _safe(lambda: gb.TensorDiagram((a, b)).calculate())
                    ctx.ensure("vector.vector", _same_tensor(got, ref, (0, 0)), witness=dict(w, got=_shape_of(got), want=ref.shape))
                    # matrix (A_i^j) applied to a contravariant vector: edge (A, v) contracts A's covariant index
                    A = mk(sa, (3, 3), [0])
                    ref = np.einsum("...ij,...i->...j", A.array, b.array)
                    got = _safe(lambda: gb.TensorDiagram((A, b)).calculate())
                    ctx.ensure("matrix.vector", _same_tensor(got, ref, (0, 1)), witness=dict(w, got=_shape_of(got), want=ref.shape))
                    # uncontracted product of two vectors: covariant first
                    def prod():
                        d = gb.TensorDiagram()
                        d.add_node(b)
                        d.add_node(a)
                        return d.calculate()

                    ref = np.einsum("...j,...i->...ij", b.array, a.array)
                    got = _safe(prod)
                    ctx.ensure("product-of-unconnected-nodes", _same_tensor(got, ref, (1, 1)) and got._covariant_indices == {got.rank - 2}, witness=dict(w, got=_shape_of(got), want=ref.shape))
                    for fc in range(4):
                        sc = full[3 - fc:]
                        try:
                            np.broadcast_shapes(sa, sb, sc)
                        except ValueError:
                            continue
                        B, v = mk(sb, (3, 3), [0]), mk(sc, (3,), [])
                        # (B, v): B_j^k v^j ; (A, B): A_i^j ... edge (A, B) pairs A's covariant index with B's contravariant index
                        ref = np.einsum("...jk,...j,...ki->...i", B.array, v.array, A.array)
                        got = _safe(lambda: gb.TensorDiagram((B, v), (A, B)).calculate())
                        ctx.ensure("matrix.matrix.vector", _same_tensor(got, ref, (0, 1)), witness=dict(w, free_c=sc, got=_shape_of(got), want=ref.shape))


# --------------------------------------------------------------------------------------------- wrappers


@case("C05", "tensor.mul.pow.product", names("a", 2, 2) + names("b", 2, 2) + names("u", 2), mode="field",
      functions=["geometer.base.Tensor.__mul__", "geometer.base.Tensor.__rmul__", "geometer.base.Tensor.__pow__", "geometer.base.Tensor.tensor_product"])
def wrappers(ctx):
    gb, TCE = _b()
    A, B, u = ctx.arr("a", 2, 2), ctx.arr("b", 2, 2), ctx.vec("u", 2)
    a, b = tolist(A), tolist(B)
    TA = gb.Tensor(A, covariant=[0])  # A_i^j
    TB = gb.Tensor(B, covariant=[0])
    Tu = gb.Tensor(u)  # u_i
    # TA * TB = TensorDiagram((TB, TA)): contracts B's covariant index with A's contravariant one: sum_k B_k^j A_i^k
    r = TA * TB
    spec = [[sum(a[i][k] * b[k][j] for k in range(2)) for j in range(2)] for i in range(2)]
    # result indices: covariant first in node order (B then A): remaining cov index of A (i), remaining contra of B (j)
    ctx.ensure("mul-matrix", ctx.conj([r.tensor_shape == (1, 1)] + [ctx.zero(r.array[i][j] - spec[i][j]) for i in range(2) for j in range(2)]))
    r = TA * Tu  # sum_k u_k A_i^k
    ctx.ensure("mul-vector", ctx.conj([r.tensor_shape == (1, 0)] + [ctx.zero(r.array[i] - sum(a[i][k] * tolist(u)[k] for k in range(2))) for i in range(2)]))
    r = TA ** 3
    a3 = geo.matmul(geo.matmul(a, a), a)
    ctx.ensure("pow3-is-matrix-cube", ctx.conj([r.tensor_shape == (1, 1)] + [ctx.zero(r.array[i][j] - a3[i][j]) for i in range(2) for j in range(2)]))
    r = TA ** 1
    ctx.ensure("pow1-is-copy", ctx.conj([ctx.zero(r.array[i][j] - a[i][j]) for i in range(2) for j in range(2)]))
    tp = Tu.tensor_product(gb.Tensor(B, covariant=[1]))  # u_i B^j_k -> cov first: (i, k, j)
    ctx.ensure("tensor_product", ctx.conj([tp.tensor_shape == (2, 1)] + [ctx.zero(tp.array[i][k][j] - tolist(u)[i] * b[j][k]) for i in range(2) for j in range(2) for k in range(2)]))
    r2 = 2 * TA
    ctx.ensure("rmul-scalar", ctx.conj([ctx.zero(r2.array[i][j] - 2 * a[i][j]) for i in range(2) for j in range(2)]))


# --------------------------------------------------------------------------------------------- epsilon / delta


def _eps_case(n, tier):
    @case("C05", "levi-civita.n%d" % n, [], mode="field", functions=["geometer.base.LeviCivitaTensor.__init__"], tier=tier, oracle=False)
    def _(ctx):
        gb, TCE = _b()
        for cov in (True, False):
            e = gb.LeviCivitaTensor(n, cov)
            arr = np.asarray(e.array)
            ctx.ensure("shape", arr.shape == (n,) * n)
            ctx.ensure("index-types", e.tensor_shape == ((n, 0) if cov else (0, n)))
            bad = 0
            for idx in itertools.product(range(n), repeat=n):
                if int(arr[idx]) != perm_sign(idx):
                    bad += 1
            ctx.ensure("entries==permutation-sign", bad == 0, entries=n ** n)
        e1, e2 = gb.LeviCivitaTensor(n), gb.LeviCivitaTensor(n)
        ctx.ensure("cached-array-shared-and-unchanged", np.array_equal(np.asarray(e1.array), np.asarray(e2.array)))


for _n in (1, 2, 3, 4, 5, 6):
    _eps_case(_n, "quick")
_eps_case(7, "thorough")


def _delta_spec(n, p, lower, upper):
    # generalized Kronecker delta = det of ordinary deltas
    m = [[1 if lower[i] == upper[j] else 0 for j in range(p)] for i in range(p)]
    return geo.det(m)


def _delta_case(n, p, tier):
    @case("C05", "kronecker.n%d.p%d" % (n, p), [], mode="field", functions=["geometer.base.KroneckerDelta.__init__"], tier=tier, oracle=False)
    def _(ctx):
        gb, TCE = _b()
        d = gb.KroneckerDelta(n, p)
        arr = np.asarray(d.array)
        ctx.ensure("shape", arr.shape == (n,) * (2 * p))
        ctx.ensure("index-types", d.tensor_shape == (p, p) and d._covariant_indices == set(range(p)))
        bad = 0
        for idx in itertools.product(range(n), repeat=2 * p):
            if int(arr[idx]) != _delta_spec(n, p, idx[:p], idx[p:]):
                bad += 1
        ctx.ensure("entries==det-of-deltas", bad == 0, entries=n ** (2 * p))


for _n, _p in [(2, 1), (2, 2), (3, 1), (3, 2), (3, 3), (4, 1), (4, 2)]:
    _delta_case(_n, _p, "quick")
for _n, _p in [(4, 3), (4, 4), (5, 2)]:
    _delta_case(_n, _p, "thorough")


@case("C05", "kronecker.sequences", [], mode="field", functions=["geometer.base.KroneckerDelta.__init__", "geometer.base.LeviCivitaTensor.__init__"], oracle=False,
      assumptions=["class-level caches: every ORDER of constructing delta(n, p) for (n, p) in {1..3} x {1..3} (p > n included: the zero tensor) is replayed in one process "
                   "(all 2-step orders, 40 random long orders); epsilon(n) in both variances interleaved"])
def kronecker_sequences(ctx):
    """the result of a constructor must not depend on which sizes were constructed before (cache keys)"""
    gb, TCE = _b()
    sizes = [(n, p) for n in (1, 2, 3) for p in (1, 2, 3)]
    spec = {}
    for n, p in sizes:
        spec[(n, p)] = np.array([_delta_spec(n, p, idx[:p], idx[p:]) for idx in itertools.product(range(n), repeat=2 * p)]).reshape((n,) * (2 * p))

    def check(order):
        gb.KroneckerDelta._cache.clear()
        gb.LeviCivitaTensor._cache.clear()
        for k, (n, p) in enumerate(order):
            d = gb.KroneckerDelta(n, p)
            arr = np.asarray(d.array)
            if arr.shape != spec[(n, p)].shape or not np.array_equal(arr.astype(int), spec[(n, p)]) or d.tensor_shape != (p, p):
                return order[: k + 1]
            if k % 2:
                e = gb.LeviCivitaTensor(n, bool(k % 4 == 1))
                if np.asarray(e.array).shape != (n,) * n or (n > 1 and int(np.asarray(e.array)[tuple(range(n))]) != 1):
                    return order[: k + 1] + ("epsilon",)
        return None

    bad = []
    for a in sizes:
        for b in sizes:
            r = check((a, b, a))
            if r:
                bad.append(r)
    rnd = random.Random(3)
    for _ in range(40):
        r = check(tuple(rnd.choice(sizes) for _ in range(8)))
        if r:
            bad.append(r)
    gb.KroneckerDelta._cache.clear()
    gb.LeviCivitaTensor._cache.clear()
    ctx.ensure("constructors-independent-of-the-construction-history", not bad, bad=str(bad[:3]))


@case("C05", "diagram.nonuniform.dims.lattice", [], kind="bounded", functions=["geometer.base.TensorDiagram.add_edge", "geometer.base.TensorDiagram.calculate"],
      bound="tensors whose axes have DIFFERENT lengths (matrices 3x4, 2x5, 4x4x3 tensors; vectors of length 2..5): every edge whose paired axes match is accepted and equals einsum, "
            "every edge whose paired axes differ raises TensorComputationError at add_edge")
def diagram_nonuniform_dims(ctx):
    """the dimension test of add_edge compares the two PAIRED axes (first unused covariant index of the source, first unused contravariant index of the target)"""
    gb, TCE = _b()
    rnd = random.Random(9)

    def mk(shape, cov):
        return gb.Tensor(rnd_int_array(rnd, list(shape)), covariant=cov, tensor_rank=len(shape))

    for (r, c) in [(3, 4), (2, 5), (4, 3), (5, 2), (3, 3)]:
        M = mk((r, c), [0])  # M_i^j: covariant axis of length r, contravariant axis of length c
        for n in (2, 3, 4, 5):
            v = mk((n,), [])  # contravariant vector: edge (M, v) pairs M's covariant axis (length r) with v
            w = mk((n,), [0])  # covariant vector: edge (w, M) pairs w with M's contravariant axis (length c)
            got = _safe(lambda: gb.TensorDiagram((M, v)).calculate())
            if n == r:
                ref = np.einsum("ij,i->j", M.array, v.array)
                ctx.ensure("matching-paired-axes:accepted-and-equal-to-einsum", _same_tensor(got, ref, (0, 1)), witness=dict(matrix=(r, c), vector=n, edge="(M, v)", got=_shape_of(got)))
            else:
                ctx.ensure("mismatching-paired-axes:TensorComputationError", isinstance(got, str) and got.startswith("TensorComputationError"), witness=dict(matrix=(r, c), vector=n, edge="(M, v)", got=_shape_of(got)))
            got = _safe(lambda: gb.TensorDiagram((w, M)).calculate())
            if n == c:
                ref = np.einsum("ij,j->i", M.array, w.array)
                ctx.ensure("matching-paired-axes:accepted-and-equal-to-einsum", _same_tensor(got, ref, (1, 0)), witness=dict(matrix=(r, c), vector=n, edge="(w, M)", got=_shape_of(got)))
            else:
                ctx.ensure("mismatching-paired-axes:TensorComputationError", isinstance(got, str) and got.startswith("TensorComputationError"), witness=dict(matrix=(r, c), vector=n, edge="(w, M)", got=_shape_of(got)))
    # after a REJECTED edge the bookkeeping must stay consistent: whether the two indices count as consumed or are put back, an edge into the
    # same target whose length matches neither the next nor the restored contravariant axis must be rejected as well (never paired with another axis)
    X = mk((3, 4, 5), [0])  # X_i^{jk}: covariant axis of length 3, contravariant axes of lengths 4 and 5
    s5, u3, u5, u4 = mk((5,), [0]), mk((3,), [0]), mk((5,), [0]), mk((4,), [0])
    d = gb.TensorDiagram()
    d.add_node(X)
    first = _safe(lambda: d.add_edge(s5, X))
    ctx.ensure("mismatching-paired-axes:TensorComputationError", isinstance(first, str) and first.startswith("TensorComputationError"), witness=dict(edge="(s5, X): first contravariant axis has length 4"))
    second = _safe(lambda: d.add_edge(u3, X))
    ctx.ensure("after-a-rejected-edge:bookkeeping-stays-consistent", isinstance(second, str) and second.startswith("TensorComputationError"),
               witness=dict(edge="(u3, X) after the rejected (s5, X): neither axis 1 (4) nor axis 2 (5) has length 3", got=str(second)[:80]))
    # rank 3 with three different lengths: T_{ij}^k (4, 2, 3); second covariant axis after the first is used
    T = mk((4, 2, 3), [0, 1])
    a, b, c = mk((4,), []), mk((2,), []), mk((3,), [0])
    got = _safe(lambda: gb.TensorDiagram((T, a), (T, b), (c, T)).calculate())
    ref = np.einsum("ijk,i,j,k->", T.array, a.array, b.array, c.array)
    ctx.ensure("matching-paired-axes:accepted-and-equal-to-einsum", _same_tensor(got, ref, (0, 0)), witness=dict(tensor=(4, 2, 3), got=_shape_of(got)))
    got = _safe(lambda: gb.TensorDiagram((T, b)).calculate())
    ctx.ensure("mismatching-paired-axes:TensorComputationError", isinstance(got, str) and got.startswith("TensorComputationError"), witness=dict(tensor=(4, 2, 3), edge="(T, b): first covariant axis has length 4, b has 2"))


@case("C05", "diagram.copy.independent", [], mode="field", oracle=False, functions=["geometer.base.TensorDiagram.copy", "geometer.base.TensorDiagram.add_edge", "geometer.base.TensorDiagram.calculate"],
      assumptions=["enumerated: 3 diagrams x every further edge / node added to the copy and, conversely, to the original"])
def diagram_copy_independent(ctx):
    """copy() yields an independent diagram: edges added to the copy do not change the original and vice versa"""
    gb, TCE = _b()
    A = gb.Tensor(np.arange(9).reshape(3, 3), covariant=[0])
    B = gb.Tensor(np.arange(9).reshape(3, 3) + 2, covariant=[0])
    v = gb.Tensor(np.array([1, 2, 3]), covariant=False)
    w = gb.Tensor(np.array([4, -1, 2]), covariant=True)
    bad = []

    def build(kind):
        d = gb.TensorDiagram()
        if kind == "node":
            d.add_node(A)
        elif kind == "edge":
            d.add_edge(A, B)
        else:
            d.add_node(A)
            d.add_node(w)
        return d

    for kind in ("node", "edge", "two-nodes"):
        for extra in ((A, v), (w, A)):
            try:
                probe = build(kind)
                probe.add_edge(*extra)
            except TCE:
                continue  # the extra edge is not available in this diagram (index already used)
            d = build(kind)
            before = np.asarray(d.calculate().array).copy()
            c = d.copy()
            c.add_edge(*extra)
            after = np.asarray(d.calculate().array)
            ref = build(kind)
            ref.add_edge(*extra)
            if before.shape != after.shape or not np.array_equal(before, after) or not np.array_equal(np.asarray(c.calculate().array), np.asarray(ref.calculate().array)):
                bad.append((kind, "copy+edge"))
            d = build(kind)
            c = d.copy()
            d.add_edge(*extra)
            if not np.array_equal(np.asarray(c.calculate().array), before):
                bad.append((kind, "original+edge"))
    ctx.ensure("copy-is-independent-of-the-original", not bad, bad=str(bad[:4]))
    # both diagrams GROW after the copy, each by a different new node (node tables must not be shared): compare with diagrams built from scratch
    C3 = gb.Tensor(np.arange(27).reshape(3, 3, 3) - 7, covariant=[0, 1])
    bad2 = []
    for first in ("copy", "original"):
        for (e_copy, e_orig) in (((B, C3), (B, v)), ((B, v), (B, C3)), ((w, A), (B, C3)), ((B, C3), (w, A))):
            try:
                d = gb.TensorDiagram((A, B))
                c = d.copy()
                if first == "copy":
                    c.add_edge(*e_copy)
                    d.add_edge(*e_orig)
                else:
                    d.add_edge(*e_orig)
                    c.add_edge(*e_copy)
                r_c, r_d = c.calculate(), d.calculate()
                ref_c, ref_d = gb.TensorDiagram((A, B), e_copy).calculate(), gb.TensorDiagram((A, B), e_orig).calculate()
                ok = np.array_equal(np.asarray(r_c.array), np.asarray(ref_c.array)) and np.array_equal(np.asarray(r_d.array), np.asarray(ref_d.array)) \
                    and r_c.tensor_shape == ref_c.tensor_shape and r_d.tensor_shape == ref_d.tensor_shape
            except Exception as e:
                ok = False
                bad2.append((first, type(e).__name__))
                continue
            if not ok:
                bad2.append((first, "values"))
    ctx.ensure("copy-and-original-grow-independently(new-nodes-on-both-sides)", not bad2, bad=str(bad2[:4]))

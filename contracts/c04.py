"""C04: collections compute element by element what single objects compute (relational contract  f(X)[k] ~ f(X[k]))
and indexing / iteration yields the element class with its attributes.

Collection shapes are enumerated (quick: (2,), thorough: (1,), (3,), (2,2)); all coordinates are symbolic."""
from __future__ import annotations

import itertools

import numpy as np

from gvc.harness import case, names
from contracts import geo
from contracts.geo import dot, tolist


def _g():
    import geometer
    import geometer.shapes as gs
    import geometer.curve as gc
    import geometer.transformation as gt

    return geometer, gs, gc, gt


def _same_obj(ctx, x, y, exact=False):
    ok = [type(x) is type(y), tuple(x.shape) == tuple(y.shape), x.tensor_shape == y.tensor_shape]
    return ctx.conj(ok + [ctx.minors_zero(x.array, y.array)])


def _same_bool(ctx, x, y):
    if ctx.symbolic:
        return ctx.iff(ctx.conj([x]), ctx.conj([y]))
    return bool(x) == bool(y)


def _lift_case(name, dim, kinds, op, compare, shape=(2,), mode="field", tier="quick", requires=None, **kw):
    """kinds: list of ('P'|'L'|'E', collection?)"""
    n = dim + 1
    syms = []
    for i, (k, coll) in enumerate(kinds):
        syms += names("x%d_" % i, *(shape if coll else ()), n)

    @case("C04", "lift.%s" % name, syms, mode=mode, tier=tier, functions=kw.pop("functions", []), timeout=kw.pop("timeout", 120),
          max_paths=kw.pop("max_paths", 600), explore_time=kw.pop("explore_time", 600),
          assumptions=["collection shape %s enumerated (bounded in the shape); all coordinates symbolic" % (shape,)])
    def _(ctx):
        geometer, gs, gc, gt = _g()
        cls = {"P": (geometer.Point, geometer.PointCollection), "L": (geometer.Line, geometer.LineCollection), "E": (geometer.Plane, geometer.PlaneCollection)}
        arrs, objs = [], []
        for i, (k, coll) in enumerate(kinds):
            a = ctx.arr("x%d_" % i, *(shape if coll else ()), n)
            arrs.append(a)
            objs.append(cls[k][1 if coll else 0](a))
        if requires is not None:
            requires(ctx, arrs)
        with ctx.stubs():
            R = op(geometer, *objs)
        for idx in np.ndindex(*shape):
            singles = []
            for (k, coll), a in zip(kinds, arrs):
                singles.append(cls[k][0](a[idx] if coll else a))
            with ctx.stubs():
                r = op(geometer, *singles)
            ctx.ensure("elementwise@%s" % (idx,), compare(ctx, R[idx] if hasattr(R, "__getitem__") and not isinstance(R, (bool,)) else R, r))


def _req_indep(k):
    def f(ctx, arrs):
        from contracts.c01 import dependent

        shape = ()
        for a in arrs:
            if a.ndim >= 2:
                shape = a.shape[:-1]
        for idx in np.ndindex(*shape):
            rows = [a[idx] if a.ndim >= 2 else a for a in arrs]
            ctx.assume(ctx.neg(dependent(ctx, rows)))

    return f


JM = ["geometer.point._join_meet_duality", "geometer.base.TensorDiagram.calculate"]
_lift_case("join.PP.2d.cc", 2, [("P", True), ("P", True)], lambda g, a, b: g.join(a, b), _same_obj, requires=_req_indep(2), functions=JM)
_lift_case("join.PP.2d.sc", 2, [("P", False), ("P", True)], lambda g, a, b: g.join(a, b), _same_obj, requires=_req_indep(2), functions=JM)
_lift_case("meet.LL.2d.cs", 2, [("L", True), ("L", False)], lambda g, a, b: g.meet(a, b), _same_obj, requires=_req_indep(2), functions=JM)
_lift_case("join.PP.3d.cc", 3, [("P", True), ("P", True)], lambda g, a, b: g.join(a, b), _same_obj, requires=_req_indep(2), functions=JM)
_lift_case("join.PPP.3d.ccs", 3, [("P", True), ("P", True), ("P", False)], lambda g, a, b, c: g.join(a, b, c), _same_obj, requires=_req_indep(3), functions=JM)
_lift_case("meet.EE.3d.cs", 3, [("E", True), ("E", False)], lambda g, a, b: g.meet(a, b), _same_obj, requires=_req_indep(2), functions=JM)
_lift_case("meet.EEE.3d.ccc", 3, [("E", True), ("E", True), ("E", True)], lambda g, a, b, c: g.meet(a, b, c), _same_obj, requires=_req_indep(3), functions=JM)
_lift_case("contains.2d.cc", 2, [("L", True), ("P", True)], lambda g, l, p: l.contains(p), _same_bool, functions=["geometer.point.SubspaceTensor.contains"])
_lift_case("contains.3d.sc", 3, [("E", False), ("P", True)], lambda g, l, p: l.contains(p), _same_bool, functions=["geometer.point.SubspaceTensor.contains"])
_lift_case("is_parallel.2d.cc", 2, [("L", True), ("L", True)], lambda g, l, m: l.is_parallel(m), _same_bool, requires=_req_indep(2),
           functions=["geometer.point.SubspaceTensor.is_parallel"])
_lift_case("parallel.2d.cc", 2, [("L", True), ("P", True)], lambda g, l, p: l.parallel(p), _same_obj, functions=["geometer.point.SubspaceTensor.parallel"],
           requires=lambda ctx, arrs: [(ctx.assume(ctx.neg(ctx.conj([ctx.zero(arrs[0][i][0]), ctx.zero(arrs[0][i][1])]))), ctx.assume(ctx.neg(ctx.zero(arrs[1][i][2])))) for i in range(2)] and None)
_lift_case("join.PP.2d.shape3", 2, [("P", True), ("P", True)], lambda g, a, b: g.join(a, b), _same_obj, shape=(3,), tier="thorough", requires=_req_indep(2), functions=JM)
_lift_case("join.PP.2d.shape22", 2, [("P", True), ("P", True)], lambda g, a, b: g.join(a, b), _same_obj, shape=(2, 2), tier="thorough",
           requires=_req_indep(2), functions=JM)
_lift_case("meet.LL.2d.shape1", 2, [("L", True), ("L", True)], lambda g, a, b: g.meet(a, b), _same_obj, shape=(1,), tier="thorough", requires=_req_indep(2), functions=JM)


def lift_coplanar_lines(ctx, which, mix="cc"):
    """the vectorised Blinn branch (fancy indexing with np.indices): collections of coplanar line pairs,
    mix: cc = two collections, cs = collection and single line, sc = single line and collection"""
    from contracts.c01 import dependent, _line_pp

    geometer, gs, gc, gt = _g()
    A, B, C = ctx.arr("a", 2, 4), ctx.arr("b", 2, 4), ctx.arr("c", 2, 4)
    if mix != "cc":
        # all pairs share the point a0; the single line is a0 b0
        A = np.stack([A[0], A[0]])
        Bs = np.stack([B[0], B[0]])
    else:
        Bs = B
    for k in range(2):
        ctx.assume(ctx.neg(dependent(ctx, [A[k], Bs[k], C[k]])))
    mk = lambda P, Q: np.array(geo.line3_from_points(tolist(P), tolist(Q)), dtype=object if ctx.symbolic else None)
    MC = geometer.LineCollection(np.stack([mk(A[k], C[k]) for k in range(2)]))
    if mix == "cc":
        LC = geometer.LineCollection(np.stack([mk(A[k], B[k]) for k in range(2)]))
        args = (LC, MC)
    else:
        single = geometer.Line(mk(A[0], B[0]))
        args = (MC, single) if mix == "cs" else (single, MC)
    if which == "meet":
        with ctx.stubs():
            X = geometer.meet(*args)
        ctx.ensure("meet:kind", type(X) is geometer.PointCollection and tuple(X.shape) == (2, 4))
        for k in range(2):
            ctx.ensure("meet:elementwise-common-point", ctx.proj_eq(X.array[k], A[k]))
    else:
        with ctx.stubs():
            E = geometer.join(*args)
        ctx.ensure("join:kind", type(E) is geometer.PlaneCollection and tuple(E.shape) == (2, 4))
        for k in range(2):
            ctx.ensure("join:elementwise-plane", ctx.proj_eq(E.array[k], geo.plane_from_points(tolist(A[k]), tolist(Bs[k]), tolist(C[k]))))


for _w in ("meet", "join"):
    for _m in ("cs", "sc"):
        case("C04", "lift.coplanar.lines.3d.%s.%s" % (_w, _m), names("a", 2, 4) + names("b", 2, 4) + names("c", 2, 4), mode="field", functions=JM, timeout=180,
             max_paths=1200, explore_time=900, also=("C01",), share=True,
             assumptions=["collection shape (2,) enumerated"])(lambda ctx, _w=_w, _m=_m: lift_coplanar_lines(ctx, _w, _m))
for _w in ("meet", "join"):
    case("C04", "lift.coplanar.lines.3d.%s" % _w, names("a", 2, 4) + names("b", 2, 4) + names("c", 2, 4), mode="field", functions=JM, timeout=180, max_paths=1200,
         explore_time=900, assumptions=["collection shape (2,) enumerated"])(lambda ctx, _w=_w: lift_coplanar_lines(ctx, _w))


@case("C04", "lift.transformation.apply", names("t", 2, 3, 3) + names("p", 2, 3) + names("q", 3), mode="field", also=("C07",),
      functions=["geometer.base.Tensor.__apply__", "geometer.transformation.TransformationTensor.__apply__"], timeout=180,
      assumptions=["collection shape (2,) enumerated", "np.linalg.inv leaf = adj/det"])
def lift_transformation(ctx):
    geometer, gs, gc, gt = _g()
    T, P, q = ctx.arr("t", 2, 3, 3), ctx.arr("p", 2, 3), ctx.vec("q", 3)
    for k in range(2):
        ctx.assume(ctx.neg(ctx.zero(geo.det(tolist(T[k])))))
    tc = gt.TransformationCollection(T)
    pc = geometer.PointCollection(P)
    r = tc * pc
    ctx.ensure("collection*collection:kind", type(r) is geometer.PointCollection and tuple(r.shape) == (2, 3))
    r1 = tc * geometer.Point(q)
    ctx.ensure("collection*single:kind", type(r1) is geometer.PointCollection and tuple(r1.shape) == (2, 3), excuse=("KF-C04-1", None))
    t0 = gt.Transformation(T[0])
    r2 = t0 * pc
    lc = geometer.LineCollection(P)
    r3 = tc * lc
    r4 = t0 * lc
    for k in range(2):
        ctx.ensure("collection*collection:elementwise", ctx.conj([ctx.zero(r.array[k][i] - geo.matvec(tolist(T[k]), tolist(P[k]))[i]) for i in range(3)]))
        ctx.ensure("collection*single:broadcast", ctx.conj([ctx.zero(r1.array[k][i] - geo.matvec(tolist(T[k]), tolist(q))[i]) for i in range(3)]))
        ctx.ensure("single*collection:broadcast", ctx.conj([ctx.zero(r2.array[k][i] - geo.matvec(tolist(T[0]), tolist(P[k]))[i]) for i in range(3)]))
        single = gt.Transformation(T[k]) * geometer.Line(P[k])
        ctx.ensure("lines:elementwise", ctx.conj([type(r3) is geometer.LineCollection] + [ctx.zero(r3.array[k][i] - single.array[i]) for i in range(3)]))
        single0 = t0 * geometer.Line(P[k])
        ctx.ensure("C07:single-transformation*line-collection:elementwise", ctx.conj([type(r4) is geometer.LineCollection, tuple(r4.shape) == (2, 3)] + [ctx.zero(r4.array[k][i] - single0.array[i]) for i in range(3)]), prop="C07")
        # and the image line contains the image of a point of the line (incidence is preserved for collections)
        pt = geo.cross(tolist(P[k]), [1, 2, 3])
        ctx.ensure("C07:image-of-line-collection-contains-image-points", ctx.zero(geo.dot(tolist(r4.array[k]), geo.matvec(tolist(T[0]), pt))), prop="C07")


@case("C04", "lift.quadric", ["a%d%d%d" % (k, i, j) for k in range(2) for i in range(3) for j in range(i, 3)] + names("p", 2, 3) + names("q", 3), mode="field",
      functions=["geometer.curve.QuadricTensor.contains", "geometer.curve.QuadricTensor.tangent", "geometer.base.TensorCollection.__getitem__", "geometer.base.TensorCollection.__iter__"],
      timeout=120, assumptions=["collection shape (2,) enumerated"])
def lift_quadric(ctx):
    geometer, gs, gc, gt = _g()
    M = np.empty((2, 3, 3), dtype=object if ctx.symbolic else float)
    for k in range(2):
        for i in range(3):
            for j in range(3):
                M[k, i, j] = ctx.sym("a%d%d%d" % (k, min(i, j), max(i, j)))
    if ctx.symbolic:
        from gvc.snp import wrap

        M = wrap(M)
    P, q = ctx.arr("p", 2, 3), ctx.vec("q", 3)
    for dual in (False, True):
        qc = gc.QuadricCollection(M, is_dual=dual)
        tag = "dual:" if dual else ""
        arg = (geometer.LineCollection if dual else geometer.PointCollection)(P)
        c = qc.contains(arg)
        for k in range(2):
            single = gc.Quadric(M[k], is_dual=dual)
            sarg = (geometer.Line if dual else geometer.Point)(P[k])
            ctx.ensure(tag + "contains:elementwise", _same_bool(ctx, c[k], single.contains(sarg)))
            # integer indexing and iteration give the element class with its attributes
            e = qc[k]
            ctx.ensure(tag + "getitem:element-class", type(e) is gc.Quadric and tuple(e.shape) == (3, 3) and e.tensor_shape == single.tensor_shape)
            ctx.ensure(tag + "getitem:is_dual-preserved", getattr(e, "is_dual", None) == dual)
            ctx.ensure(tag + "getitem:values", ctx.conj([ctx.zero(e.array[i][j] - M[k][i][j]) for i in range(3) for j in range(3)]))
        its = list(qc)
        ctx.ensure(tag + "iter:element-class-and-attributes", len(its) == 2 and all(type(e) is gc.Quadric and getattr(e, "is_dual", None) == dual for e in its))
    qc = gc.QuadricCollection(M)
    t = qc.tangent(geometer.PointCollection(P))
    t1 = qc.tangent(geometer.Point(q))
    for k in range(2):
        ctx.ensure("tangent:elementwise", ctx.conj([isinstance(t, geometer.point.SubspaceCollection) and t.tensor_shape == (0, 1) and tuple(t.shape) == (2, 3)] + [ctx.zero(t.array[k][i] - geo.matvec(tolist(M[k]), tolist(P[k]))[i]) for i in range(3)]))
        ctx.ensure("tangent:single-point-broadcast", ctx.conj([ctx.zero(t1.array[k][i] - geo.matvec(tolist(M[k]), tolist(q))[i]) for i in range(3)]))


@case("C04", "getitem.iter.classes", names("p", 2, 3) + names("e", 2, 4) + names("s", 2, 2, 3), mode="field",
      functions=["geometer.base.TensorCollection.__getitem__", "geometer.base.TensorCollection.__iter__", "geometer.point.PointTensor.__getitem__",
                 "geometer.point.LineTensor.__getitem__", "geometer.point.PlaneTensor.__getitem__", "geometer.shapes.SegmentTensor.__getitem__",
                 "geometer.shapes.PolytopeTensor.__getitem__"], timeout=120, assumptions=["collection shape (2,) enumerated"], spare=60)
def getitem_classes(ctx):
    geometer, gs, gc, gt = _g()
    P, E, Sg = ctx.arr("p", 2, 3), ctx.arr("e", 2, 4), ctx.arr("s", 2, 2, 3)
    for k in range(2):
        ctx.assume(ctx.neg(ctx.minors_zero(Sg[k][0], Sg[k][1])))
    with ctx.stubs():
        colls = [
            ("PointCollection", geometer.PointCollection(P), geometer.Point, P),
            ("LineCollection", geometer.LineCollection(P), geometer.Line, P),
            ("PlaneCollection", geometer.PlaneCollection(E), geometer.Plane, E),
            ("SegmentCollection", gs.SegmentCollection(Sg), gs.Segment, Sg),
        ]
        for name, c, elem, arr in colls:
            for k in range(2):
                e = c[k]
                ctx.ensure("%s[k]:element-class" % name, type(e) is elem and e.tensor_shape == c.tensor_shape and e.free_indices == (1 if elem is gs.Segment else 0))
                ctx.ensure("%s[k]:values" % name, ctx.conj([ctx.zero(x - y) for x, y in zip(np.asarray(e.array, dtype=object).reshape(-1), np.asarray(arr[k], dtype=object).reshape(-1))]))
            its = list(c)
            ctx.ensure("%s:iteration" % name, len(its) == 2 and all(type(e) is elem for e in its))
            sl = c[0:1]
            ctx.ensure("%s[0:1]:stays-a-collection" % name, type(sl) is type(c) and sl.shape[0] == 1)
        sc = colls[3][1]
        for k in range(2):
            ctx.ensure("SegmentCollection[k]._line~join-of-its-vertices", ctx.minors_zero(sc[k]._line.array, geo.cross(tolist(Sg[k][0]), tolist(Sg[k][1]))))


@case("C04", "lift.segment.contains", names("s", 2, 2, 3) + names("p", 2, 3), mode="real",
      functions=["geometer.shapes.SegmentTensor.contains"], timeout=240, max_paths=600, explore_time=900, tier="thorough",
      assumptions=["collection shape (2,) enumerated"])
def lift_segment_contains(ctx):
    geometer, gs, gc, gt = _g()
    Sg, P = ctx.arr("s", 2, 2, 3), ctx.arr("p", 2, 3)
    for k in range(2):
        ctx.assume(ctx.neg(ctx.minors_zero(Sg[k][0], Sg[k][1])))
        ctx.assume(ctx.neg(ctx.zero(Sg[k][0][2])))
        ctx.assume(ctx.neg(ctx.zero(Sg[k][1][2])))
    with ctx.stubs():
        sc = gs.SegmentCollection(Sg)
        r = sc.contains(geometer.PointCollection(P))
        for k in range(2):
            single = gs.Segment(Sg[k]).contains(geometer.Point(P[k]))
            ctx.ensure("contains:elementwise", _same_bool(ctx, r[k], single))


@case("C04", "lift.point.arithmetic", names("p", 2, 3) + names("q", 3) + ["s"], mode="real",
      functions=["geometer.point.PointLikeTensor.__add__", "geometer.point.PointLikeTensor.__sub__", "geometer.point.PointLikeTensor.__mul__",
                 "geometer.point.PointLikeTensor.__truediv__", "geometer.point.PointLikeTensor._normalize_array"], timeout=120, max_paths=600, explore_time=600,
      assumptions=["collection shape (2,) enumerated"])
def lift_point_arithmetic(ctx):
    """affine arithmetic on a PointCollection whose elements have DIFFERENT homogeneous scales (also 1 and 0) equals the
    arithmetic on the single points"""
    geometer, gs, gc, gt = _g()
    P, q, s = ctx.arr("p", 2, 3), ctx.vec("q", 3), ctx.sym("s")
    ctx.assume(ctx.neg(ctx.zero(s)))
    ctx.assume(ctx.neg(ctx.zero(q[2])))
    for k in range(2):
        ctx.assume(ctx.neg(ctx.all_zero(P[k])))
    pc, Q = geometer.PointCollection(P), geometer.Point(q)
    ops = [("+", lambda a: a + Q), ("-", lambda a: a - Q), ("*s", lambda a: a * s), ("/s", lambda a: a / s), ("q+", lambda a: Q + a)]
    for name, f in ops:
        R = f(pc)
        ctx.ensure("%s:kind" % name, type(R) is geometer.PointCollection and tuple(R.shape) == (2, 3))
        for k in range(2):
            r = f(geometer.Point(P[k]))
            ctx.ensure("%s:elementwise" % name, ctx.minors_zero(R.array[k], r.array))
    na = pc.normalized_array
    for k in range(2):
        nk = geometer.Point(P[k]).normalized_array
        ctx.ensure("normalized_array:elementwise", ctx.conj([ctx.zero(na[k][i] - nk[i]) for i in range(3)]))

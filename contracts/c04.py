"""C04: collections compute element by element what single objects compute (relational contract  f(X)[k] ~ f(X[k]))
and indexing / iteration yields the element class with its attributes.

Collection shapes are enumerated (quick: (2,), thorough: (1,), (3,), (2,2)); all coordinates are symbolic."""
from __future__ import annotations

import itertools

import numpy as np

from gvc.harness import case, names
from contracts import geo
from contracts.geo import dot, tolist


def _g():
    import geometer
    import geometer.shapes as gs
    import geometer.curve as gc
    import geometer.transformation as gt

    return geometer, gs, gc, gt


def _same_obj(ctx, x, y, exact=False):
    ok = [type(x) is type(y), tuple(x.shape) == tuple(y.shape), x.tensor_shape == y.tensor_shape]
    return ctx.conj(ok + [ctx.minors_zero(x.array, y.array)])


def _same_bool(ctx, x, y):
    if ctx.symbolic:
        return ctx.iff(ctx.conj([x]), ctx.conj([y]))
    return bool(x) == bool(y)


def _lift_case(name, dim, kinds, op, compare, shape=(2,), mode="field", tier="quick", requires=None, **kw):
    """kinds: list of ('P'|'L'|'E', collection?)"""
    n = dim + 1
    syms = []
    for i, (k, coll) in enumerate(kinds):
        syms += names("x%d_" % i, *(shape if coll else ()), n)

    @case("C04", "lift.%s" % name, syms, mode=mode, tier=tier, functions=kw.pop("functions", []), timeout=kw.pop("timeout", 120),
          max_paths=kw.pop("max_paths", 600), explore_time=kw.pop("explore_time", 600),
          assumptions=["collection shape %s enumerated (bounded in the shape); all coordinates symbolic" % (shape,)])
    def _(ctx):
        geometer, gs, gc, gt = _g()
        cls = {"P": (geometer.Point, geometer.PointCollection), "L": (geometer.Line, geometer.LineCollection), "E": (geometer.Plane, geometer.PlaneCollection)}
        arrs, objs = [], []
        for i, (k, coll) in enumerate(kinds):
            a = ctx.arr("x%d_" % i, *(shape if coll else ()), n)
            arrs.append(a)
            objs.append(cls[k][1 if coll else 0](a))
        if requires is not None:
            requires(ctx, arrs)
        with ctx.stubs():
            R = op(geometer, *objs)
        for idx in np.ndindex(*shape):
            singles = []
            for (k, coll), a in zip(kinds, arrs):
                singles.append(cls[k][0](a[idx] if coll else a))
            with ctx.stubs():
                r = op(geometer, *singles)
            ctx.ensure("elementwise@%s" % (idx,), compare(ctx, R[idx] if hasattr(R, "__getitem__") and not isinstance(R, (bool,)) else R, r))


def _req_indep(k):
    def f(ctx, arrs):
        from contracts.c01 import dependent

        shape = ()
        for a in arrs:
            if a.ndim >= 2:
                shape = a.shape[:-1]
        for idx in np.ndindex(*shape):
            rows = [a[idx] if a.ndim >= 2 else a for a in arrs]
            ctx.assume(ctx.neg(dependent(ctx, rows)))

    return f


JM = ["geometer.point._join_meet_duality", "geometer.base.TensorDiagram.calculate"]
_lift_case("join.PP.2d.cc", 2, [("P", True), ("P", True)], lambda g, a, b: g.join(a, b), _same_obj, requires=_req_indep(2), functions=JM)
_lift_case("join.PP.2d.sc", 2, [("P", False), ("P", True)], lambda g, a, b: g.join(a, b), _same_obj, requires=_req_indep(2), functions=JM)
_lift_case("meet.LL.2d.cs", 2, [("L", True), ("L", False)], lambda g, a, b: g.meet(a, b), _same_obj, requires=_req_indep(2), functions=JM)
_lift_case("join.PP.3d.cc", 3, [("P", True), ("P", True)], lambda g, a, b: g.join(a, b), _same_obj, requires=_req_indep(2), functions=JM)
_lift_case("join.PPP.3d.ccs", 3, [("P", True), ("P", True), ("P", False)], lambda g, a, b, c: g.join(a, b, c), _same_obj, requires=_req_indep(3), functions=JM)
_lift_case("meet.EE.3d.cs", 3, [("E", True), ("E", False)], lambda g, a, b: g.meet(a, b), _same_obj, requires=_req_indep(2), functions=JM)
_lift_case("meet.EEE.3d.ccc", 3, [("E", True), ("E", True), ("E", True)], lambda g, a, b, c: g.meet(a, b, c), _same_obj, requires=_req_indep(3), functions=JM)
_lift_case("contains.2d.cc", 2, [("L", True), ("P", True)], lambda g, l, p: l.contains(p), _same_bool, functions=["geometer.point.SubspaceTensor.contains"])
_lift_case("contains.3d.sc", 3, [("E", False), ("P", True)], lambda g, l, p: l.contains(p), _same_bool, functions=["geometer.point.SubspaceTensor.contains"])
_lift_case("is_parallel.2d.cc", 2, [("L", True), ("L", True)], lambda g, l, m: l.is_parallel(m), _same_bool, requires=_req_indep(2),
           functions=["geometer.point.SubspaceTensor.is_parallel"])
_lift_case("parallel.2d.cc", 2, [("L", True), ("P", True)], lambda g, l, p: l.parallel(p), _same_obj, functions=["geometer.point.SubspaceTensor.parallel"],
           requires=lambda ctx, arrs: [(ctx.assume(ctx.neg(ctx.conj([ctx.zero(arrs[0][i][0]), ctx.zero(arrs[0][i][1])]))), ctx.assume(ctx.neg(ctx.zero(arrs[1][i][2])))) for i in range(2)] and None)
_lift_case("join.PP.2d.shape3", 2, [("P", True), ("P", True)], lambda g, a, b: g.join(a, b), _same_obj, shape=(3,), tier="thorough", requires=_req_indep(2), functions=JM)
_lift_case("join.PP.2d.shape22", 2, [("P", True), ("P", True)], lambda g, a, b: g.join(a, b), _same_obj, shape=(2, 2), tier="thorough",
           requires=_req_indep(2), functions=JM)
_lift_case("meet.LL.2d.shape1", 2, [("L", True), ("L", True)], lambda g, a, b: g.meet(a, b), _same_obj, shape=(1,), tier="thorough", requires=_req_indep(2), functions=JM)


def lift_coplanar_lines(ctx, which, mix="cc"):
    """the vectorised Blinn branch (fancy indexing with np.indices): collections of coplanar line pairs,
    mix: cc = two collections, cs = collection and single line, sc = single line and collection"""
    from contracts.c01 import dependent, _line_pp

    geometer, gs, gc, gt = _g()
    A, B, C = ctx.arr("a", 2, 4), ctx.arr("b", 2, 4), ctx.arr("c", 2, 4)
    if mix != "cc":
        # all pairs share the point a0; the single line is a0 b0
        A = np.stack([A[0], A[0]])
        Bs = np.stack([B[0], B[0]])
    else:
        Bs = B
    for k in range(2):
        ctx.assume(ctx.neg(dependent(ctx, [A[k], Bs[k], C[k]])))
    mk = lambda P, Q: np.array(geo.line3_from_points(tolist(P), tolist(Q)), dtype=object if ctx.symbolic else None)
    MC = geometer.LineCollection(np.stack([mk(A[k], C[k]) for k in range(2)]))
    if mix == "cc":
        LC = geometer.LineCollection(np.stack([mk(A[k], B[k]) for k in range(2)]))
        args = (LC, MC)
    else:
        single = geometer.Line(mk(A[0], B[0]))
        args = (MC, single) if mix == "cs" else (single, MC)
    if which == "meet":
        with ctx.stubs():
            X = geometer.meet(*args)
        ctx.ensure("meet:kind", type(X) is geometer.PointCollection and tuple(X.shape) == (2, 4))
        for k in range(2):
            ctx.ensure("meet:elementwise-common-point", ctx.proj_eq(X.array[k], A[k]))
    else:
        with ctx.stubs():
            E = geometer.join(*args)
        ctx.ensure("join:kind", type(E) is geometer.PlaneCollection and tuple(E.shape) == (2, 4))
        for k in range(2):
            ctx.ensure("join:elementwise-plane", ctx.proj_eq(E.array[k], geo.plane_from_points(tolist(A[k]), tolist(Bs[k]), tolist(C[k]))))


for _w in ("meet", "join"):
    for _m in ("cs", "sc"):
        case("C04", "lift.coplanar.lines.3d.%s.%s" % (_w, _m), names("a", 2, 4) + names("b", 2, 4) + names("c", 2, 4), mode="field", functions=JM, timeout=180,
             max_paths=1200, explore_time=900, also=("C01",), share=True,
             assumptions=["collection shape (2,) enumerated"])(lambda ctx, _w=_w, _m=_m: lift_coplanar_lines(ctx, _w, _m))
for _w in ("meet", "join"):
    case("C04", "lift.coplanar.lines.3d.%s" % _w, names("a", 2, 4) + names("b", 2, 4) + names("c", 2, 4), mode="field", functions=JM, timeout=180, max_paths=1200,
         explore_time=900, assumptions=["collection shape (2,) enumerated"])(lambda ctx, _w=_w: lift_coplanar_lines(ctx, _w))


@case("C04", "lift.transformation.apply", names("t", 2, 3, 3) + names("p", 2, 3) + names("q", 3), mode="field", also=("C07",),
      functions=["geometer.base.Tensor.__apply__", "geometer.transformation.TransformationTensor.__apply__"], timeout=180,
      assumptions=["collection shape (2,) enumerated", "np.linalg.inv leaf = adj/det"])
def lift_transformation(ctx):
    geometer, gs, gc, gt = _g()
    T, P, q = ctx.arr("t", 2, 3, 3), ctx.arr("p", 2, 3), ctx.vec("q", 3)
    for k in range(2):
        ctx.assume(ctx.neg(ctx.zero(geo.det(tolist(T[k])))))
    tc = gt.TransformationCollection(T)
    pc = geometer.PointCollection(P)
    r = tc * pc
    ctx.ensure("collection*collection:kind", type(r) is geometer.PointCollection and tuple(r.shape) == (2, 3))
    r1 = tc * geometer.Point(q)
    ctx.ensure("collection*single:kind", type(r1) is geometer.PointCollection and tuple(r1.shape) == (2, 3), excuse=("KF-C04-1", None))
    t0 = gt.Transformation(T[0])
    r2 = t0 * pc
    lc = geometer.LineCollection(P)
    r3 = tc * lc
    r4 = t0 * lc
    for k in range(2):
        ctx.ensure("collection*collection:elementwise", ctx.conj([ctx.zero(r.array[k][i] - geo.matvec(tolist(T[k]), tolist(P[k]))[i]) for i in range(3)]))
        ctx.ensure("collection*single:broadcast", ctx.conj([ctx.zero(r1.array[k][i] - geo.matvec(tolist(T[k]), tolist(q))[i]) for i in range(3)]))
        ctx.ensure("single*collection:broadcast", ctx.conj([ctx.zero(r2.array[k][i] - geo.matvec(tolist(T[0]), tolist(P[k]))[i]) for i in range(3)]))
        single = gt.Transformation(T[k]) * geometer.Line(P[k])
        ctx.ensure("lines:elementwise", ctx.conj([type(r3) is geometer.LineCollection] + [ctx.zero(r3.array[k][i] - single.array[i]) for i in range(3)]))
        single0 = t0 * geometer.Line(P[k])
        ctx.ensure("C07:single-transformation*line-collection:elementwise", ctx.conj([type(r4) is geometer.LineCollection, tuple(r4.shape) == (2, 3)] + [ctx.zero(r4.array[k][i] - single0.array[i]) for i in range(3)]), prop="C07")
        # and the image line contains the image of a point of the line (incidence is preserved for collections)
        pt = geo.cross(tolist(P[k]), [1, 2, 3])
        ctx.ensure("C07:image-of-line-collection-contains-image-points", ctx.zero(geo.dot(tolist(r4.array[k]), geo.matvec(tolist(T[0]), pt))), prop="C07")


@case("C04", "lift.quadric", ["a%d%d%d" % (k, i, j) for k in range(2) for i in range(3) for j in range(i, 3)] + names("p", 2, 3) + names("q", 3), mode="field",
      functions=["geometer.curve.QuadricTensor.contains", "geometer.curve.QuadricTensor.tangent", "geometer.base.TensorCollection.__getitem__", "geometer.base.TensorCollection.__iter__"],
      timeout=120, assumptions=["collection shape (2,) enumerated"])
def lift_quadric(ctx):
    geometer, gs, gc, gt = _g()
    M = np.empty((2, 3, 3), dtype=object if ctx.symbolic else float)
    for k in range(2):
        for i in range(3):
            for j in range(3):
                M[k, i, j] = ctx.sym("a%d%d%d" % (k, min(i, j), max(i, j)))
    if ctx.symbolic:
        from gvc.snp import wrap

        M = wrap(M)
    P, q = ctx.arr("p", 2, 3), ctx.vec("q", 3)
    for dual in (False, True):
        qc = gc.QuadricCollection(M, is_dual=dual)
        tag = "dual:" if dual else ""
        arg = (geometer.LineCollection if dual else geometer.PointCollection)(P)
        c = qc.contains(arg)
        for k in range(2):
            single = gc.Quadric(M[k], is_dual=dual)
            sarg = (geometer.Line if dual else geometer.Point)(P[k])
            ctx.ensure(tag + "contains:elementwise", _same_bool(ctx, c[k], single.contains(sarg)))
            # integer indexing and iteration give the element class with its attributes
            e = qc[k]
            ctx.ensure(tag + "getitem:element-class", type(e) is gc.Quadric and tuple(e.shape) == (3, 3) and e.tensor_shape == single.tensor_shape)
            ctx.ensure(tag + "getitem:is_dual-preserved", getattr(e, "is_dual", None) == dual)
            ctx.ensure(tag + "getitem:values", ctx.conj([ctx.zero(e.array[i][j] - M[k][i][j]) for i in range(3) for j in range(3)]))
        its = list(qc)
        ctx.ensure(tag + "iter:element-class-and-attributes", len(its) == 2 and all(type(e) is gc.Quadric and getattr(e, "is_dual", None) == dual for e in its))
    qc = gc.QuadricCollection(M)
    t = qc.tangent(geometer.PointCollection(P))
    t1 = qc.tangent(geometer.Point(q))
    for k in range(2):
        ctx.ensure("tangent:elementwise", ctx.conj([isinstance(t, geometer.point.SubspaceCollection) and t.tensor_shape == (0, 1) and tuple(t.shape) == (2, 3)] + [ctx.zero(t.array[k][i] - geo.matvec(tolist(M[k]), tolist(P[k]))[i]) for i in range(3)]))
        ctx.ensure("tangent:single-point-broadcast", ctx.conj([ctx.zero(t1.array[k][i] - geo.matvec(tolist(M[k]), tolist(q))[i]) for i in range(3)]))


@case("C04", "getitem.iter.classes", names("p", 2, 3) + names("e", 2, 4) + names("s", 2, 2, 3), mode="field",
      functions=["geometer.base.TensorCollection.__getitem__", "geometer.base.TensorCollection.__iter__", "geometer.point.PointTensor.__getitem__",
                 "geometer.point.LineTensor.__getitem__", "geometer.point.PlaneTensor.__getitem__", "geometer.shapes.SegmentTensor.__getitem__",
                 "geometer.shapes.PolytopeTensor.__getitem__"], timeout=120, assumptions=["collection shape (2,) enumerated"], spare=60)
def getitem_classes(ctx):
    geometer, gs, gc, gt = _g()
    P, E, Sg = ctx.arr("p", 2, 3), ctx.arr("e", 2, 4), ctx.arr("s", 2, 2, 3)
    for k in range(2):
        ctx.assume(ctx.neg(ctx.minors_zero(Sg[k][0], Sg[k][1])))
    with ctx.stubs():
        colls = [
            ("PointCollection", geometer.PointCollection(P), geometer.Point, P),
            ("LineCollection", geometer.LineCollection(P), geometer.Line, P),
            ("PlaneCollection", geometer.PlaneCollection(E), geometer.Plane, E),
            ("SegmentCollection", gs.SegmentCollection(Sg), gs.Segment, Sg),
        ]
        for name, c, elem, arr in colls:
            for k in range(2):
                e = c[k]
                ctx.ensure("%s[k]:element-class" % name, type(e) is elem and e.tensor_shape == c.tensor_shape and e.free_indices == (1 if elem is gs.Segment else 0))
                ctx.ensure("%s[k]:values" % name, ctx.conj([ctx.zero(x - y) for x, y in zip(np.asarray(e.array, dtype=object).reshape(-1), np.asarray(arr[k], dtype=object).reshape(-1))]))
            its = list(c)
            ctx.ensure("%s:iteration" % name, len(its) == 2 and all(type(e) is elem for e in its))
            sl = c[0:1]
            ctx.ensure("%s[0:1]:stays-a-collection" % name, type(sl) is type(c) and sl.shape[0] == 1)
        sc = colls[3][1]
        for k in range(2):
            ctx.ensure("SegmentCollection[k]._line~join-of-its-vertices", ctx.minors_zero(sc[k]._line.array, geo.cross(tolist(Sg[k][0]), tolist(Sg[k][1]))))


@case("C04", "lift.segment.contains", names("s", 2, 2, 3) + names("p", 2, 3), mode="real",
      functions=["geometer.shapes.SegmentTensor.contains"], timeout=240, max_paths=600, explore_time=900, tier="thorough",
      assumptions=["collection shape (2,) enumerated"])
def lift_segment_contains(ctx):
    geometer, gs, gc, gt = _g()
    Sg, P = ctx.arr("s", 2, 2, 3), ctx.arr("p", 2, 3)
    for k in range(2):
        ctx.assume(ctx.neg(ctx.minors_zero(Sg[k][0], Sg[k][1])))
        ctx.assume(ctx.neg(ctx.zero(Sg[k][0][2])))
        ctx.assume(ctx.neg(ctx.zero(Sg[k][1][2])))
    with ctx.stubs():
        sc = gs.SegmentCollection(Sg)
        r = sc.contains(geometer.PointCollection(P))
        for k in range(2):
            single = gs.Segment(Sg[k]).contains(geometer.Point(P[k]))
            ctx.ensure("contains:elementwise", _same_bool(ctx, r[k], single))


@case("C04", "lift.point.arithmetic", names("p", 2, 3) + names("q", 3) + ["s"], mode="real",
      functions=["geometer.point.PointLikeTensor.__add__", "geometer.point.PointLikeTensor.__sub__", "geometer.point.PointLikeTensor.__mul__",
                 "geometer.point.PointLikeTensor.__truediv__", "geometer.point.PointLikeTensor._normalize_array"], timeout=120, max_paths=600, explore_time=600,
      assumptions=["collection shape (2,) enumerated"])
def lift_point_arithmetic(ctx):
    """affine arithmetic on a PointCollection whose elements have DIFFERENT homogeneous scales (also 1 and 0) equals the
    arithmetic on the single points"""
    geometer, gs, gc, gt = _g()
    P, q, s = ctx.arr("p", 2, 3), ctx.vec("q", 3), ctx.sym("s")
    ctx.assume(ctx.neg(ctx.zero(s)))
    ctx.assume(ctx.neg(ctx.zero(q[2])))
    for k in range(2):
        ctx.assume(ctx.neg(ctx.all_zero(P[k])))
    pc, Q = geometer.PointCollection(P), geometer.Point(q)
    ops = [("+", lambda a: a + Q), ("-", lambda a: a - Q), ("*s", lambda a: a * s), ("/s", lambda a: a / s), ("q+", lambda a: Q + a)]
    for name, f in ops:
        R = f(pc)
        ctx.ensure("%s:kind" % name, type(R) is geometer.PointCollection and tuple(R.shape) == (2, 3))
        for k in range(2):
            r = f(geometer.Point(P[k]))
            ctx.ensure("%s:elementwise" % name, ctx.minors_zero(R.array[k], r.array))
    na = pc.normalized_array
    for k in range(2):
        nk = geometer.Point(P[k]).normalized_array
        ctx.ensure("normalized_array:elementwise", ctx.conj([ctx.zero(na[k][i] - nk[i]) for i in range(3)]))


# ------------------------------------------------------------------------------------------------ bounded: collection SHAPES
def _shape_ops():
    """(name, dim, kinds of the arguments, function).  Kinds: P point, L line, E plane, Q non-degenerate quadric, T transformation, S segment, G polygon (quadrilateral)"""
    import geometer as g
    from geometer import operators as go

    ops = [
        ("join(P,P).2d", 2, "PP", lambda a, b: g.join(a, b)), ("meet(L,L).2d", 2, "LL", lambda a, b: g.meet(a, b)),
        ("join(P,P).3d", 3, "PP", lambda a, b: g.join(a, b)), ("join(P,P,P).3d", 3, "PPP", lambda a, b, c: g.join(a, b, c)),
        ("meet(E,E).3d", 3, "EE", lambda a, b: g.meet(a, b)), ("meet(E,E,E).3d", 3, "EEE", lambda a, b, c: g.meet(a, b, c)),
        ("meet(E,L).3d", 3, "EL", lambda a, b: g.meet(a, b)), ("join(L,P).3d", 3, "LP", lambda a, b: g.join(a, b)),
        ("meet(L,L).3d.coplanar", 3, "LK", lambda a, b: g.meet(a, b)), ("join(L,L).3d.coplanar", 3, "LK", lambda a, b: g.join(a, b)),
        ("L.is_coplanar(L).3d", 3, "LL", lambda a, b: a.is_coplanar(b)), ("L.is_coplanar(L).3d.coplanar", 3, "LK", lambda a, b: a.is_coplanar(b)),
        ("L.contains(P).2d", 2, "LP", lambda a, b: a.contains(b)), ("E.contains(P).3d", 3, "EP", lambda a, b: a.contains(b)), ("L.contains(P).3d", 3, "LP", lambda a, b: a.contains(b)),
        ("L.is_parallel(L).2d", 2, "LL", lambda a, b: a.is_parallel(b)), ("E.is_parallel(E).3d", 3, "EE", lambda a, b: a.is_parallel(b)),
        ("L.parallel(P).2d", 2, "LP", lambda a, b: a.parallel(b)), ("E.parallel(P).3d", 3, "EP", lambda a, b: a.parallel(b)), ("L.parallel(P).3d", 3, "LP", lambda a, b: a.parallel(b)),
        ("L.perpendicular(P).2d", 2, "LP", lambda a, b: a.perpendicular(b)), ("E.perpendicular(P).3d", 3, "EP", lambda a, b: a.perpendicular(b)),
        ("L.perpendicular(P).3d", 3, "LP", lambda a, b: a.perpendicular(b)),
        ("L.project(P).2d", 2, "LP", lambda a, b: a.project(b)), ("E.project(P).3d", 3, "EP", lambda a, b: a.project(b)), ("L.project(P).3d", 3, "LP", lambda a, b: a.project(b)),
        ("L.mirror(P).2d", 2, "LP", lambda a, b: a.mirror(b)), ("E.mirror(P).3d", 3, "EP", lambda a, b: a.mirror(b)),
        ("L.base_point.2d", 2, "L", lambda a: a.base_point), ("L.direction.2d", 2, "L", lambda a: a.direction), ("L.base_point.3d", 3, "L", lambda a: a.base_point),
        ("L.direction.3d", 3, "L", lambda a: a.direction), ("L.general_point.2d", 2, "L", lambda a: a.general_point), ("E.general_point.3d", 3, "E", lambda a: a.general_point),
        ("L.basis_matrix.2d", 2, "L", lambda a: a.basis_matrix), ("E.basis_matrix.3d", 3, "E", lambda a: a.basis_matrix), ("L.basis_matrix.3d", 3, "L", lambda a: a.basis_matrix),
        ("P.normalized_array.3d", 3, "P", lambda a: a.normalized_array), ("P.isinf.2d", 2, "P", lambda a: a.isinf), ("P+P.2d", 2, "PP", lambda a, b: a + b), ("P-P.3d", 3, "PP", lambda a, b: a - b),
        ("dist(P,P).2d", 2, "PP", go.dist), ("dist(P,P).3d", 3, "PP", go.dist), ("dist(L,P).2d", 2, "LP", go.dist), ("dist(P,L).3d", 3, "PL", go.dist), ("dist(E,P).3d", 3, "EP", go.dist),
        ("dist(L,L).3d", 3, "LL", go.dist), ("dist(S,P).2d", 2, "SP", go.dist), ("dist(P,S).3d", 3, "PS", go.dist), ("dist(G,P).2d", 2, "GP", go.dist), ("dist(P,G).3d", 3, "PG", go.dist), ("angle(L,L).2d", 2, "LL", go.angle), ("angle(P,P,P).2d", 2, "PPP", go.angle), ("angle(P,P,P).3d", 3, "PPP", go.angle),
        ("angle(E,E).3d", 3, "EE", go.angle), ("is_collinear(P,P,P).2d", 2, "PPP", go.is_collinear), ("is_collinear(P,P,P,P).2d", 2, "PPPP", go.is_collinear),
        ("is_coplanar(P,P,P,P,P).3d", 3, "PPPPP", go.is_coplanar), ("is_perpendicular(L,L).2d", 2, "LL", go.is_perpendicular), ("is_perpendicular(E,E).3d", 3, "EE", go.is_perpendicular),
        ("is_cocircular.2d", 2, "PPPP", go.is_cocircular), ("crossratio(L,L,L,L,P).2d", 2, "PPPPP", lambda a, b, c, d, o: go.crossratio(a.join(o), b.join(o), c.join(o), d.join(o))),
        ("harmonic_set.2d", 2, "PP", lambda a, b: go.harmonic_set(a, b, (lambda c: g.PointCollection(c) if c.ndim > 1 else g.Point(c))(2 * a.array + 3 * b.array))), ("angle_bisectors.2d", 2, "LL", go.angle_bisectors),
        ("Q.contains(P).2d", 2, "QP", lambda q, p: q.contains(p)), ("Q.tangent(P).2d", 2, "QP", lambda q, p: q.tangent(p)) if False else ("Q.contains(P).3d", 3, "QP", lambda q, p: q.contains(p)),
        ("Q.is_tangent(L).2d", 2, "QL", lambda q, l: q.is_tangent(l)), ("Q.dual.3d", 3, "Q", lambda q: q.dual), ("Q.is_degenerate.2d", 2, "Q", lambda q: q.is_degenerate),
        ("Q.intersect(L).2d", 2, "QL", lambda q, l: q.intersect(l)), ("Q.intersect(L).3d", 3, "QL", lambda q, l: q.intersect(l)),
        ("T*P.2d", 2, "TP", lambda t, p: t * p), ("T*L.2d", 2, "TL", lambda t, l: t * l), ("T*E.3d", 3, "TE", lambda t, e: t * e), ("T*L.3d", 3, "TL", lambda t, l: t * l), ("T*Q.2d", 2, "TQ", lambda t, q: t * q),
        ("T.inverse.3d", 3, "T", lambda t: t.inverse()), ("T*T.2d", 2, "TT", lambda s, t: s * t), ("T**2.2d", 2, "T", lambda t: t ** 2), ("T**0.2d", 2, "T", lambda t: t ** 0), ("T**-1.3d", 3, "T", lambda t: t ** -1),
        ("S.contains(P).2d", 2, "SP", lambda s, p: s.contains(p)), ("S.length.3d", 3, "S", lambda s: s.length), ("S.midpoint.2d", 2, "S", lambda s: s.midpoint), ("S.intersect(L).2d", 2, "SL", lambda s, l: s.intersect(l)),
        ("S.intersect(S).2d", 2, "SS", lambda s, t: s.intersect(t)),
        ("G.area.2d", 2, "G", lambda p: p.area), ("G.area.3d", 3, "G", lambda p: p.area), ("G.contains(P).2d", 2, "GP", lambda p, x: p.contains(x)),
        ("G.contains(P).3d", 3, "GP", lambda p, x: p.contains(x)), ("G.angles.2d", 2, "G", lambda p: p.angles), ("G.intersect(L).3d", 3, "GL", lambda p, l: p.intersect(l)),
    ]
    return ops


def _shape_make(kind, dim, rnd):
    """array of ONE object of the kind, integer coordinates in general position"""
    n = dim + 1
    ri = lambda lo=-4, hi=4: rnd.randint(lo, hi)
    if kind == "P":
        return np.array([ri() for _ in range(dim)] + [rnd.choice([1, 1, 2, -1])], dtype=float)
    if kind == "E" or (kind == "L" and dim == 2):
        while True:
            v = np.array([ri() for _ in range(n)], dtype=float)
            if np.any(v[:-1]):
                return v
    if kind == "L":
        import geometer as g
        while True:
            a, b = np.array([ri() for _ in range(3)] + [1.0]), np.array([ri() for _ in range(3)] + [1.0])
            if np.any(a != b):
                return g.Line(g.Point(a), g.Point(b)).array
    if kind == "Q":
        while True:
            m = np.array([[ri(-3, 3) for _ in range(n)] for _ in range(n)], dtype=float)
            m = m + m.T + np.diag([3.0] * dim + [-7.0])
            if abs(np.linalg.det(m)) > 1:
                return m
    if kind == "T":
        while True:
            m = np.array([[ri(-2, 2) for _ in range(n)] for _ in range(n)], dtype=float) + 3 * np.eye(n)
            if abs(np.linalg.det(m)) > 1:
                return m
    if kind == "S":
        while True:
            a, b = [ri() for _ in range(dim)] + [1.0], [ri() for _ in range(dim)] + [1.0]
            if a != b:
                return np.array([a, b], dtype=float)
    if kind == "G":
        # convex quadrilateral in the plane, moved into 3-space by a fixed affine map per object
        c = np.array([ri(-2, 2), ri(-2, 2)], dtype=float)
        pts = [c + np.array(v, dtype=float) for v in ((0, 0), (3 + ri(0, 2), 0), (3 + ri(0, 2), 2 + ri(0, 2)), (0, 3))]
        if dim == 2:
            return np.array([list(p) + [1.0] for p in pts])
        u, w, o = np.array([1.0, 0, ri(-1, 1)]), np.array([0, 1.0, ri(-1, 1)]), np.array([ri(-2, 2), ri(-2, 2), ri(-2, 2)], dtype=float)
        return np.array([list(o + p[0] * u + p[1] * w) + [1.0] for p in pts])
    raise ValueError(kind)


def _shape_make_all(kinds, dim, rnd):
    """one object per argument; kind K = a 3D line coplanar with (and different from) the preceding line argument"""
    if kinds == "GP" and dim == 3:
        # the query point lies in the plane of the polygon (inside or outside): random points are never coplanar
        G = _shape_make("G", dim, rnd)
        wts = np.array([rnd.randint(-1, 3) for _ in range(4)], dtype=float)
        if wts.sum() == 0:
            wts[0] += 1
        P = (wts / wts.sum()) @ G
        return [G, P]
    if "K" not in kinds:
        return [_shape_make(k, dim, rnd) for k in kinds]
    import geometer as g
    while True:
        a, b, c = (np.array([rnd.randint(-4, 4) for _ in range(3)] + [1.0]) for _ in range(3))
        if np.linalg.matrix_rank(np.array([a, b, c])) == 3:
            break
    out = []
    for k in kinds:
        if k == "L":
            out.append(g.Line(g.Point(a), g.Point(b)).array)
        elif k == "K":
            out.append(g.Line(g.Point(a * rnd.choice([1, 2, -1])), g.Point(c)).array)
        else:
            out.append(_shape_make(k, dim, rnd))
    return out


def _shape_wrap(kind, dim, arr, coll):
    if kind == "K":
        kind = "L"
    import geometer as g
    from geometer.curve import Quadric, QuadricCollection, Conic
    from geometer.shapes import Segment, SegmentCollection, Polygon, PolygonCollection
    from geometer.transformation import Transformation, TransformationCollection

    if kind == "P":
        return g.PointCollection(arr) if coll else g.Point(arr)
    if kind == "E":
        return g.PlaneCollection(arr) if coll else g.Plane(arr)
    if kind == "L":
        return g.LineCollection(arr) if coll else g.Line(arr)
    if kind == "Q":
        return QuadricCollection(arr) if coll else (Conic(arr) if dim == 2 else Quadric(arr))
    if kind == "T":
        return TransformationCollection(arr) if coll else Transformation(arr)
    if kind == "S":
        return SegmentCollection(arr) if coll else Segment(arr)
    if kind == "G":
        return PolygonCollection(arr) if coll else Polygon(arr)


def _shape_same(a, b):
    from geometer.base import Tensor, ProjectiveTensor

    if isinstance(a, (list, tuple)) or isinstance(b, (list, tuple)):
        if not isinstance(a, (list, tuple)) or not isinstance(b, (list, tuple)) or len(a) != len(b):
            return False
        # point sets (intersections, bisectors) are compared as sets
        used = set()
        for x in a:
            hit = next((j for j, y in enumerate(b) if j not in used and _shape_same(x, y)), None)
            if hit is None:
                return False
            used.add(hit)
        return True
    if isinstance(a, Tensor) or isinstance(b, Tensor):
        if not (isinstance(a, Tensor) and isinstance(b, Tensor)) or a.shape != b.shape or a.tensor_shape != b.tensor_shape:
            return False
        if isinstance(a, ProjectiveTensor):
            return bool(a == b) and np.abs(a.array).max() > 0 or (np.abs(a.array).max() == 0 and np.abs(b.array).max() == 0)
        return bool(np.allclose(a.array, b.array, atol=1e-7, equal_nan=True))
    a, b = np.asarray(a), np.asarray(b)
    if a.shape != b.shape:
        return False
    if a.dtype == bool or b.dtype == bool:
        return bool(np.all(a == b))
    return bool(np.allclose(a, b, atol=1e-7, rtol=1e-6, equal_nan=True))


_FLAT_OPS = ("S.intersect(L).2d", "S.intersect(S).2d", "G.intersect(L).3d")  # return one flat list of points over all positions


def _flatten_points(r):
    out = []
    for x in r:
        if getattr(x, "free_indices", 0) > 0:
            out += list(_flatten_points(list(x)))
        else:
            out.append(x)
    return out


def _shape_pick(r, idx, nshape):
    """element idx of a collection result"""
    from geometer.base import Tensor

    if isinstance(r, (list, tuple)):
        return [_shape_pick(x, idx, nshape) for x in r]
    if isinstance(r, Tensor):
        return r[idx]
    r = np.asarray(r)
    return r[idx]


@case("C04", "lift.shapes.lattice", [], kind="bounded", also=("C01",),
      functions=["geometer.point._join_meet_duality", "geometer.point.SubspaceTensor", "geometer.point.LineTensor", "geometer.point.PlaneTensor", "geometer.operators", "geometer.curve.QuadricTensor",
                 "geometer.transformation.TransformationTensor", "geometer.shapes.SegmentTensor", "geometer.shapes.PolygonTensor"],
      bound="98 public operations x collection shapes (1,), (3,), (2,2), (3,1), (1,2) x argument mixes (all collections; one argument single, broadcasting) x every position; "
            "one random general-position integer configuration per position (seeded)")
def lift_shapes_lattice(ctx):
    import random as _random
    import warnings

    warnings.simplefilter("ignore")
    np.seterr(all="ignore")
    shapes = [(1,), (3,), (2, 2), (3, 1), (1, 2)]
    for name, dim, kinds, fn in _shape_ops():
        for shape in shapes:
            rnd = _random.Random(hash((name, shape)) % 100003 if False else (len(name) * 131 + sum(shape) * 17 + len(shape)))
            # per position and argument one object
            elems = {idx: _shape_make_all(kinds, dim, rnd) for idx in np.ndindex(*shape)}
            # single-object oracle per position
            oracle, skip = {}, False
            for idx, arrs in elems.items():
                try:
                    oracle[idx] = fn(*[_shape_wrap(k, dim, a, False) for k, a in zip(kinds, arrs)])
                except Exception:
                    skip = True  # the configuration is degenerate for the single objects: not a statement about collections
                    break
            if skip:
                continue
            mixes = [tuple(True for _ in kinds)] + ([tuple(j != s for j in range(len(kinds))) for s in range(len(kinds))] if len(kinds) > 1 else [])
            for mix in mixes:
                args = []
                for j, (k, c) in enumerate(zip(kinds, mix)):
                    if c:
                        a = np.empty(shape + elems[next(iter(elems))][j].shape)
                        for idx in elems:
                            a[idx] = elems[idx][j]
                        args.append(_shape_wrap(k, dim, a, True))
                    else:
                        args.append(_shape_wrap(k, dim, elems[next(iter(elems))][j], False))
                w = dict(operation=name, shape=shape, collection_arguments=[bool(c) for c in mix])
                # single-object results per position for this mix; a degenerate configuration for the single objects is not a statement about collections
                wants, degenerate = {}, False
                for idx in elems:
                    if all(mix):
                        wants[idx] = oracle[idx]
                        continue
                    try:
                        wants[idx] = fn(*[_shape_wrap(k, dim, elems[idx][j] if c else elems[next(iter(elems))][j], False) for j, (k, c) in enumerate(zip(kinds, mix))])
                    except Exception:
                        degenerate = True
                        break
                if degenerate or any(_has_nan(v) for v in wants.values()):
                    continue
                clause, excuse = "lift:%s" % name, None
                cprop = ("C04", "C01") if name.startswith(("join(", "meet(")) else None
                if kinds[0] == "T" and len(kinds) == 2 and kinds[1] != "T" and mix == (True, False):
                    clause, excuse = "lift:%s:collection-of-transformations-x-single-object" % name, ("KF-C04-1", None)
                try:
                    res = fn(*args)
                except Exception as e:
                    ctx.ensure(clause, False, witness=dict(w, exception="%s: %s" % (type(e).__name__, str(e)[:120])), excuse=excuse, prop=cprop)
                    continue
                ok = True
                if name in _FLAT_OPS:
                    want_all = [x for idx in elems for x in wants[idx]]
                    try:
                        got_all = _flatten_points(res)
                        ok = _shape_same(got_all, want_all)
                    except Exception as e:
                        ok = False
                        w["exception"] = "%s: %s" % (type(e).__name__, str(e)[:120])
                    if not ok:
                        w["got"], w["want"] = str(res)[:200], str(want_all)[:200]
                    ctx.ensure(clause, ok, witness=w, excuse=excuse, prop=cprop)
                    continue
                degenerate_value = {"angle(L,L).2d": 0.0, "crossratio(L,L,L,L,P).2d": 1.0}.get(name)
                coincident = []
                for idx in elems:
                    want = wants[idx]
                    try:
                        got = _shape_pick(res, idx, len(shape))
                        if degenerate_value is not None and np.ndim(got) == 0 and np.isnan(got) and np.ndim(want) == 0 and abs(want - degenerate_value) < 1e-12:
                            # KF-C04-3: only the positions whose first two arguments coincide (parallel lines) are routed to the excused clause
                            coincident.append(idx)
                            continue
                        if not _shape_same(got, want):
                            ok = False
                            w["position"], w["got"], w["want"] = idx, str(got)[:160], str(want)[:160]
                            break
                    except Exception as e:
                        ok = False
                        w["position"], w["exception"] = idx, "%s: %s" % (type(e).__name__, str(e)[:120])
                        break
                ctx.ensure(clause, ok, witness=w, excuse=excuse, prop=cprop)
                if coincident:
                    ctx.ensure("lift:%s:positions-with-coincident-first-arguments" % name, False, witness=dict(w, positions=coincident, got="nan", want=degenerate_value),
                               excuse=("KF-C04-3", None))


@case("C04", "lift.collinearity.designed", [], kind="bounded", also=("C10",), share=True, functions=["geometer.operators.is_coplanar", "geometer.operators.is_perpendicular", "geometer.operators.is_cocircular", "geometer.operators.crossratio"],
      bound="is_collinear of 4 points (2D) / is_coplanar of 5 points (3D) on collections whose positions are DESIGNED (random points are never collinear): first dim+1 arguments "
            "independent / dependent with a later one off / all dependent / coincident first arguments; every order of 4 positions, shapes (4,), (2,2), (4,1); exact integer rank as oracle; "
            "is_perpendicular of 3-element collections of 2D lines / planes mixing perpendicular, parallel and generic pairs (60 + 60 orders), is_cocircular of collections mixing "
            "cocircular, non-cocircular quadruples and quadruples with a == b (60 orders)")
def lift_collinearity_designed(ctx):
    import geometer as g
    from geometer import operators as go

    def rank_deficient(rows):
        n = len(rows[0])
        def det(m):
            if len(m) == 1:
                return m[0][0]
            return sum((-1) ** j * m[0][j] * det([r[:j] + r[j + 1:] for r in m[1:]]) for j in range(len(m)))
        return all(det([list(r) for r in c]) == 0 for c in itertools.combinations(rows, n))

    cfg2 = [[(0, 0), (1, 1), (2, 0), (3, 3)], [(0, 0), (1, 1), (2, 2), (3, 0)], [(0, 0), (1, 1), (2, 2), (5, 5)], [(1, 0), (1, 0), (2, 2), (3, 0)], [(1, 0), (1, 0), (2, 2), (3, 4)],
            [(2, 1), (4, 2), (0, 0), (0, 1)]]
    cfg3 = [[(0, 0, 0), (1, 0, 0), (0, 1, 0), (0, 0, 1), (1, 1, 1)], [(0, 0, 0), (1, 0, 0), (0, 1, 0), (1, 1, 0), (0, 0, 1)], [(0, 0, 0), (1, 0, 0), (0, 1, 0), (1, 1, 0), (2, 3, 0)],
            [(0, 0, 0), (1, 0, 0), (2, 0, 0), (0, 1, 0), (0, 0, 1)], [(1, 1, 1), (1, 1, 1), (2, 0, 0), (0, 1, 0), (0, 0, 5)], [(0, 0, 0), (1, 0, 0), (2, 0, 0), (3, 0, 0), (0, 1, 1)]]
    for dim, cfgs, fn in ((2, cfg2, go.is_collinear), (3, cfg3, go.is_coplanar)):
        nargs = dim + 2
        for order in itertools.permutations(range(len(cfgs)), 4):
            if order[0] > order[-1] and len(set(order)) == 4 and sum(order) % 3:
                continue  # thin the 360 orders
            sel = [cfgs[i] for i in order]
            want = np.array([rank_deficient([list(p) + [1] for p in c]) for c in sel])
            for shape in ((4,), (2, 2), (4, 1)):
                args = [g.PointCollection(np.array([list(c[j]) + [1] for c in sel], dtype=float).reshape(shape + (dim + 1,))) for j in range(nargs)]
                w = dict(dim=dim, configurations=order, shape=shape)
                try:
                    got = np.asarray(fn(*args))
                    ok = got.shape == shape and bool(np.all(got.reshape(-1) == want))
                    w["got"], w["want"] = got.reshape(-1).tolist(), want.tolist()
                except Exception as e:
                    ok = False
                    w["exception"] = "%s: %s" % (type(e).__name__, str(e)[:100])
                ctx.ensure("is_collinear/is_coplanar:element-by-element==exact-rank-test", ok, witness=w)
            # a single first argument broadcasting against collections
            first = g.Point(*sel[0][0])
            rest = [g.PointCollection(np.array([list(c[j]) + [1] for c in sel], dtype=float)) for j in range(1, nargs)]
            want1 = np.array([rank_deficient([list(sel[0][0]) + [1]] + [list(p) + [1] for p in c[1:]]) for c in sel])
            try:
                got = np.asarray(fn(first, *rest))
                ok = bool(np.all(got == want1))
            except Exception as e:
                ok = False
            ctx.ensure("is_collinear/is_coplanar:single-first-argument-broadcasts", ok, witness=dict(dim=dim, configurations=order))

    # collections that MIX degenerate elements (parallel lines: the cross ratio behind is_perpendicular has coinciding first arguments;
    # coinciding points in is_cocircular) with ordinary ones: every position keeps its own answer
    pairs2 = [((1, 2, -3), (2, -1, 5), True), ((1, 2, -3), (2, 4, 1), False), ((1, 2, -3), (1, 1, 0), False), ((0, 1, 0), (1, 0, -2), True), ((3, -1, 2), (3, -1, 7), False)]
    for order in itertools.permutations(range(len(pairs2)), 3):
        sel = [pairs2[i] for i in order]
        L = g.LineCollection(np.array([x[0] for x in sel], dtype=float))
        M = g.LineCollection(np.array([x[1] for x in sel], dtype=float))
        want = [x[2] for x in sel]
        w = dict(pairs=[(x[0], x[1]) for x in sel], want=want)
        try:
            got = np.asarray(go.is_perpendicular(L, M)).tolist()
            singles = [bool(go.is_perpendicular(g.Line(*x[0]), g.Line(*x[1]))) for x in sel]
            ok = got == want and singles == want
            w["got"] = got
        except Exception as e:
            ok = False
            w["exception"] = "%s: %s" % (type(e).__name__, str(e)[:100])
        ctx.ensure("is_perpendicular(2d):collections-mixing-parallel-and-perpendicular-pairs", ok, witness=w)
    pl = [((1, 2, 2, -3), (2, -1, 0, 5), True), ((1, 2, 2, -3), (2, 4, 4, 1), False), ((1, 0, 1, 0), (1, 1, 0, 2), False), ((0, 0, 1, 4), (1, 1, 0, -2), True), ((1, 2, 2, -3), (2, 4, 3, 1), False)]
    for order in itertools.permutations(range(len(pl)), 3):
        sel = [pl[i] for i in order]
        E = g.PlaneCollection(np.array([x[0] for x in sel], dtype=float))
        F = g.PlaneCollection(np.array([x[1] for x in sel], dtype=float))
        want = [x[2] for x in sel]
        w = dict(pairs=[(x[0], x[1]) for x in sel], want=want)
        try:
            got = np.asarray(go.is_perpendicular(E, F)).tolist()
            ok = got == want
            w["got"] = got
        except Exception as e:
            ok = False
            w["exception"] = "%s: %s" % (type(e).__name__, str(e)[:100])
        ctx.ensure("is_perpendicular(3d-planes):collections-mixing-parallel-perpendicular-and-generic-pairs", ok, witness=w)
    # is_cocircular: (a, b, c, d) on the circle x^2 + y^2 = 25 / d off it / a == b
    quads = [((5, 0), (0, 5), (-5, 0), (3, 4), True), ((5, 0), (0, 5), (-5, 0), (3, 3), False), ((5, 0), (5, 0), (-5, 0), (3, 4), True), ((5, 0), (5, 0), (-5, 0), (1, 1), True),
             ((4, 3), (-3, 4), (0, -5), (2, 2), False)]
    for order in itertools.permutations(range(len(quads)), 3):
        sel = [quads[i] for i in order]
        args = [g.PointCollection(np.array([list(x[j]) + [1] for x in sel], dtype=float)) for j in range(4)]
        singles = []
        for x in sel:
            try:
                singles.append(bool(go.is_cocircular(*[g.Point(*x[j]) for j in range(4)])))
            except Exception as e:
                singles.append(type(e).__name__)
        w = dict(quadruples=[x[:4] for x in sel], singles=singles)
        try:
            got = np.asarray(go.is_cocircular(*args)).tolist()
            # the single-object answers are the oracle (C04); the designed truth only for the non-degenerate quadruples (C10)
            ok = got == singles and all(gv == x[4] for gv, x in zip(got, sel) if x[0] != x[1])
            w["got"] = got
        except Exception as e:
            ok = False
            w["exception"] = "%s: %s" % (type(e).__name__, str(e)[:100])
        ctx.ensure("is_cocircular:collections-mixing-coincident-and-distinct-points", ok, witness=w)


def _has_nan(v):
    from geometer.base import Tensor

    if isinstance(v, (list, tuple)):
        return any(_has_nan(x) for x in v)
    a = v.array if isinstance(v, Tensor) else np.asarray(v)
    return a.dtype.kind in "fc" and bool(np.any(np.isnan(a)))


@case("C04", "getitem.polytope.classes", [], kind="bounded", functions=["geometer.shapes.PolytopeTensor.__getitem__", "geometer.shapes.PolytopeTensor._cast_polytope", "geometer.base.TensorCollection.__iter__"],
      bound="PolygonCollections of 4 triangles / 3 quadrilaterals / 3 pentagons (2D and 3D), SegmentCollection, shapes (k,) and (2,2): integer index, iteration, slices, index arrays, boolean masks; "
            "class, shape and the answers of the result against the single polygons")
def getitem_polytope_classes(ctx):
    import geometer as g
    from geometer.shapes import Polygon, PolygonCollection, Triangle, Rectangle, Segment, SegmentCollection

    def poly(n, shift, dim):
        import math
        pts = [(math.cos(2 * math.pi * k / n) * 2 + shift[0], math.sin(2 * math.pi * k / n) * 2 + shift[1]) for k in range(n)]
        if n == 4:
            pts = [(shift[0], shift[1]), (shift[0] + 3, shift[1]), (shift[0] + 3, shift[1] + 2), (shift[0], shift[1] + 2)]
        return np.array([list(p) + ([0.5 * shift[0]] if dim == 3 else []) + [1.0] for p in pts])

    for dim in (2, 3):
        for n, single_cls in ((3, Triangle), (4, Rectangle), (5, Polygon)):
            shifts = [(0, 0), (7, 0), (0, 7), (7, 7)]
            pc = PolygonCollection(np.stack([poly(n, s, dim) for s in shifts]))
            w = dict(dim=dim, vertices=n)
            e = pc[1]
            ctx.ensure("integer-index:single-polygon-class", isinstance(e, single_cls) and e.shape == (n, dim + 1) and e == Polygon(poly(n, shifts[1], dim)), witness=dict(w, got=type(e).__name__))
            its = list(pc)
            ctx.ensure("iteration:single-polygon-class", len(its) == 4 and all(isinstance(x, single_cls) and x.shape == (n, dim + 1) for x in its), witness=dict(w, got=[type(x).__name__ for x in its]))
            for name, idx, k in (("slice", slice(0, 3), 3), ("index-array", [0, 2], 2), ("mask", np.array([True, False, True, True]), 3), ("slice-1", slice(1, 2), 1)):
                sub = pc[idx]
                ok = isinstance(sub, PolygonCollection) and sub.shape == (k, n, dim + 1)
                if ok and dim == 2:
                    q = g.Point(shifts[0][0] + 0.5, shifts[0][1] + 0.5) if n == 4 else g.Point(*shifts[0])
                    ok = np.array_equal(np.asarray(sub.contains(q)), np.asarray(pc.contains(q))[idx]) and np.allclose(sub.area, np.asarray(pc.area)[idx])
                ctx.ensure("%s:stays-a-collection" % name, ok, witness=dict(w, got=type(sub).__name__, shape=getattr(sub, "shape", None)))
            pc2 = PolygonCollection(np.stack([poly(n, s, dim) for s in shifts]).reshape(2, 2, n, dim + 1))
            row = pc2[1]
            ctx.ensure("two-collection-axes:row-stays-a-collection", isinstance(row, PolygonCollection) and row.shape == (2, n, dim + 1) and isinstance(pc2[1, 0], single_cls), witness=dict(w, got=type(row).__name__))
    # a 3D collection answers like its single polygons also AFTER its areas / centroids were read (call sequence; supporting planes off the origin)
    for n in (4, 5):
        shifts3 = [(2, 1), (7, 3), (-4, 6)]
        pc = PolygonCollection(np.stack([poly(n, s, 3) for s in shifts3]))
        singles = [Polygon(poly(n, s, 3)) for s in shifts3]
        inner = g.PointCollection(np.array([[s[0] + 0.5, s[1] + 0.5, 0.5 * s[0], 1.0] for s in shifts3]))
        lines = g.LineCollection([g.Line(g.Point(s[0] + 0.5, s[1] + 0.5, 0.5 * s[0] - 1), g.Point(s[0] + 0.5, s[1] + 0.5, 0.5 * s[0] + 2)).array for s in shifts3])
        w = dict(vertices=n)
        try:
            area_first = np.asarray(pc.area)
            got = np.asarray(pc.contains(inner)).tolist()
            want = [bool(P.contains(g.Point(s[0] + 0.5, s[1] + 0.5, 0.5 * s[0]))) for P, s in zip(singles, shifts3)]
            npts = sum(np.asarray(x.array).size // 4 for x in pc.intersect(lines))
            ok = got == want == [True] * 3 and npts == 3 and np.allclose(area_first, [float(P.area) for P in singles]) and np.allclose(np.asarray(pc.area), area_first)
            w.update(got=got, want=want, points=npts)
        except Exception as e:
            ok = False
            w["exception"] = "%s: %s" % (type(e).__name__, str(e)[:100])
        ctx.ensure("3d-collection:contains/intersect-after-area==single-polygons", ok, witness=w)
    sc = SegmentCollection(np.array([[[0, 0, 1], [1, 1, 1]], [[1, 0, 1], [0, 1, 1]], [[2, 2, 1], [3, 5, 1]]], dtype=float))
    ctx.ensure("segments:classes", isinstance(sc[0], Segment) and isinstance(sc[0:2], SegmentCollection) and isinstance(sc[[0, 2]], SegmentCollection) and all(isinstance(x, Segment) for x in sc)
               and sc[0:2].shape == (2, 2, 3), witness=dict(got=[type(sc[0]).__name__, type(sc[0:2]).__name__]))

"""C06 / C07: the action of projective transformations (Tensor.__apply__, TransformationTensor.__apply__,
inverse, __pow__, polytope overrides) as a group action that preserves incidence and commutes with
join / meet.  Matrices are fully symbolic; np.linalg.inv is the leaf adj(M)/det(M) (raises for det = 0)."""
from __future__ import annotations

import itertools

import numpy as np

from gvc.harness import case, names
from contracts import geo
from contracts.geo import dot, tolist
from contracts.c01 import _line_pp, _line_ef, dependent, on_hyper, on_line3, line_in_plane
from contracts.c20 import _eq_all

FUN = ["geometer.base.Tensor.__apply__", "geometer.transformation.TransformationTensor.__apply__", "geometer.transformation.TransformationTensor.apply",
       "geometer.transformation.TransformationTensor.__mul__", "geometer.transformation.TransformationTensor.inverse", "geometer.utils.math.inv"]
LEAF = ["np.linalg.inv (LAPACK) assumed to return adj(A)/det(A) and to raise LinAlgError for singular input",
        "textbook lemma used, not mechanised: the tensor action rho(M) of an invertible matrix is injective, so the image of a non-zero tensor is non-zero (images are proved EQUAL to rho(M)(x) entry by entry)"]


def _g():
    import geometer
    import geometer.transformation as gt

    return geometer, gt


def _det_nonzero(ctx, M):
    return ctx.neg(ctx.zero(geo.det(tolist(M))))


def rho_cov(M, x):
    """action on a covariant vector (point): M x"""
    return geo.matvec(tolist(M), tolist(x))


def rho_contra(M, h):
    """action on a contravariant vector (hyperplane): h adj(M)  (projectively h M^-1)"""
    A = geo.adjugate(tolist(M))
    h = tolist(h)
    n = len(h)
    return [dot(h, [A[k][j] for k in range(n)]) for j in range(n)]


def rho_contra2(M, Q):
    """action on a (0,2) tensor (quadric matrix, 3D line): adj(M)^T Q adj(M)"""
    A = geo.adjugate(tolist(M))
    return geo.matmul(geo.matmul(geo.transpose(A), tolist(Q)), A)


def rho_cov2(M, Q):
    """action on a (2,0) tensor (dual quadric): M Q M^T"""
    M = tolist(M)
    return geo.matmul(geo.matmul(M, tolist(Q)), geo.transpose(M))


def _objects(ctx, geometer, dim):
    """(name, object, spec action) for every single-object kind of dimension dim, built from symbols"""
    n = dim + 1
    out = []
    x = ctx.vec("x", n)
    out.append(("point", geometer.Point(x), rho_cov))
    h = ctx.vec("h", n)
    out.append(("hyperplane", geometer.Line(h) if dim == 2 else geometer.Plane(h), rho_contra))
    return out


def _same_kind(r, x):
    return type(r) is type(x) and r.tensor_shape == x.tensor_shape and tuple(r.shape) == tuple(x.shape)


# ------------------------------------------------------------------------------------- C06: points and hyperplanes


def _vec_case(dim):
    n = dim + 1

    @case("C06", "action.vectors.%dd" % dim, names("s", n, n) + names("t", n, n) + names("x", n) + names("h", n), mode="field",
          functions=FUN, assumptions=LEAF, timeout=120, also=("C07",))
    def _(ctx):
        geometer, gt = _g()
        S, T = ctx.arr("s", n, n), ctx.arr("t", n, n)
        ctx.assume(_det_nonzero(ctx, S))
        ctx.assume(_det_nonzero(ctx, T))
        s, t = gt.Transformation(S), gt.Transformation(T)
        # ghost lemma (normal form): det(S T) == det(S) det(T), so that det(S T) != 0 follows from the requires
        ctx.factor_hint(geo.det(geo.matmul(tolist(S), tolist(T))), [geo.det(tolist(S)), geo.det(tolist(T))])
        ctx.factor_hint(geo.det(geo.adjugate(tolist(T))), [geo.det(tolist(T))] * (n - 1))
        st = s * t
        ctx.ensure("composition-is-matrix-product", ctx.conj([type(st) is gt.Transformation, _eq_all(ctx, st.array, geo.matmul(tolist(S), tolist(T)))]))
        I = gt.identity(dim)
        dT = geo.det(tolist(T))
        for name, x, rho in _objects(ctx, geometer, dim):
            ctx.assume(ctx.neg(ctx.all_zero(x.array)))  # requires: x is a projective object
            tx = t * x
            unit = 1 if name == "point" else dT  # the code divides by det(M) on contravariant indices
            ctx.ensure("%s:t*x==rho(M)(x)" % name, ctx.conj([_same_kind(tx, x), _eq_all(ctx, [v * unit for v in tolist(tx.array)], rho(T, x.array))]))
            ctx.ensure("%s:(s*t)*x==s*(t*x)" % name, ctx.conj([_same_kind(st * x, x), _eq_all(ctx, (st * x).array, (s * tx).array)]))
            ctx.ensure("%s:identity*x==x" % name, ctx.conj([_same_kind(I * x, x), _eq_all(ctx, (I * x).array, x.array)]))
            back = t.inverse() * tx
            ctx.ensure("%s:t.inverse()*(t*x)==x" % name, ctx.conj([_same_kind(back, x), _eq_all(ctx, back.array, x.array)]))
        # incidence is preserved (C07)
        (_, P, _), (_, H, _) = _objects(ctx, geometer, dim)
        with ctx.stubs():
            c0 = H.contains(P)
            c1 = (t * H).contains(t * P)
        ctx.ensure("C07:contains(h,p)<=>contains(t*h,t*p)", ctx.iff(ctx.conj([c0]), ctx.conj([c1])), prop="C07")


_vec_case(2)
_vec_case(3)


# ------------------------------------------------------------------------------------- C06: transformations, powers


def _pow_case(dim):
    n = dim + 1

    @case("C06", "pow.inverse.%dd" % dim, names("t", n, n), mode="field", functions=FUN + ["geometer.transformation.TransformationTensor.__pow__", "geometer.base.Tensor.__pow__", "geometer.transformation.identity"],
          assumptions=LEAF + ["exponents enumerated: k in -3..5 (bounded in k)"], timeout=120)
    def _(ctx):
        geometer, gt = _g()
        T = ctx.arr("t", n, n)
        ctx.assume(_det_nonzero(ctx, T))
        t = gt.Transformation(T)
        M = tolist(T)
        W = t.inverse()
        ctx.ensure("inverse-kind", type(W) is gt.Transformation)
        ctx.ensure("inverse*t==identity", _eq_all(ctx, (W * t).array, geo.identity(n)))
        ctx.ensure("t*inverse==identity", _eq_all(ctx, (t * W).array, geo.identity(n)))
        ctx.ensure("inverse.inverse==t", _eq_all(ctx, W.inverse().array, M))
        P = geo.identity(n)
        p0 = t ** 0
        ctx.ensure("t**0==identity", ctx.conj([type(p0) is gt.Transformation, _eq_all(ctx, p0.array, P)]))
        for k in range(1, 6):
            P = geo.matmul(P, M)
            r = t ** k
            ctx.ensure("t**%d==M^%d" % (k, k), ctx.conj([type(r) is gt.Transformation, r.tensor_shape == (1, 1), _eq_all(ctx, r.array, P)]))
        A = geo.adjugate(M)
        Q = geo.identity(n)
        for k in range(1, 4 if dim == 2 else 3):
            Q = geo.matmul(Q, A)
            r = t ** (-k)
            dk = geo.det(M) ** k
            ctx.ensure("t**-%d==(M^-1)^%d" % (k, k), ctx.conj([type(r) is gt.Transformation, _eq_all(ctx, [[v * dk for v in row] for row in tolist(r.array)], Q)]))


_pow_case(2)
_pow_case(3)


@case("C06", "pow.collection", names("t", 2, 3, 3), mode="field", functions=FUN + ["geometer.transformation.TransformationTensor.__pow__", "geometer.transformation.identity"],
      assumptions=LEAF, timeout=120, also=("C04",))
def pow_collection(ctx):
    geometer, gt = _g()
    T = ctx.arr("t", 2, 3, 3)
    for k in range(2):
        ctx.assume(_det_nonzero(ctx, T[k]))
    tc = gt.TransformationCollection(T)
    p0 = tc ** 0
    ctx.ensure("collection**0==identities", ctx.conj([type(p0) is gt.TransformationCollection, tuple(p0.shape) == (2, 3, 3)] + [_eq_all(ctx, p0.array[k], geo.identity(3)) for k in range(2)]))
    p2 = tc ** 2
    ctx.ensure("collection**2-elementwise", ctx.conj([type(p2) is gt.TransformationCollection] + [_eq_all(ctx, p2.array[k], geo.matmul(tolist(T[k]), tolist(T[k]))) for k in range(2)]))
    inv = tc.inverse()
    ctx.ensure("collection-inverse-elementwise", ctx.conj([type(inv) is gt.TransformationCollection] + [_eq_all(ctx, geo.matmul(tolist(inv.array[k]), tolist(T[k])), geo.identity(3)) for k in range(2)]))
    ctx.ensure("collection[k]-is-Transformation", ctx.conj([type(tc[k]) is gt.Transformation and tc[k].tensor_shape == (1, 1) for k in range(2)] + [_eq_all(ctx, tc[k].array, tolist(T[k])) for k in range(2)]), prop="C04")


# ------------------------------------------------------------------------------------- quadrics


def _quadric_case(dim):
    n = dim + 1
    msyms = [("m%d%d" % (i, j)) for i in range(n) for j in range(i, n)]

    @case("C06", "action.quadric.%dd" % dim, names("t", n, n) + msyms + names("x", n) + names("h", n), mode="field", functions=FUN + ["geometer.curve.QuadricTensor.contains", "geometer.curve.QuadricTensor.__init__"],
          assumptions=LEAF, timeout=180, also=("C07",), tier="thorough" if dim == 3 else "quick")
    def _(ctx):
        geometer, gt = _g()
        T = ctx.arr("t", n, n)
        ctx.assume(_det_nonzero(ctx, T))
        t = gt.Transformation(T)
        ctx_q_nonzero = None
        Q = np.empty((n, n), dtype=object if ctx.symbolic else float)
        for i in range(n):
            for j in range(n):
                Q[i, j] = ctx.sym("m%d%d" % (min(i, j), max(i, j)))
        if ctx.symbolic:
            from gvc.snp import wrap

            Q = wrap(Q)
        x, h = ctx.vec("x", n), ctx.vec("h", n)
        P = geometer.Point(x)
        H = geometer.Line(h) if dim == 2 else geometer.Plane(h)
        dT = geo.det(tolist(T))
        for dual in (False, True):
            q = geometer.Quadric(Q, is_dual=dual)
            tq = t * q
            tag = "dual-quadric" if dual else "quadric"
            spec = rho_cov2(T, Q) if dual else rho_contra2(T, Q)
            unit = 1 if dual else dT * dT
            ctx.ensure("%s:t*q==rho(M)(q)" % tag, ctx.conj([type(tq) is type(q), tq.is_dual == dual, tq.tensor_shape == q.tensor_shape,
                                                             _eq_all(ctx, [[v * unit for v in r] for r in tolist(tq.array)], spec)]))
            I = gt.identity(dim)
            ctx.ensure("%s:identity*q==q" % tag, _eq_all(ctx, (I * q).array, Q))
            if dim == 2 or not dual:
                back = t.inverse() * tq
                ctx.ensure("%s:t.inverse()*(t*q)==q" % tag, ctx.conj([type(back) is type(q), back.is_dual == dual, _eq_all(ctx, back.array, Q)]))
            # a point lies on the quadric (a hyperplane on the dual quadric) iff the images do
            arg = H if dual else P
            c0 = q.contains(arg)
            c1 = tq.contains(t * arg)
            ctx.ensure("C07:%s-contains-preserved" % tag, ctx.iff(ctx.conj([c0]), ctx.conj([c1])), prop="C07")


_quadric_case(2)
_quadric_case(3)


# ------------------------------------------------------------------------------------- 3D lines


@case("C06", "action.line3d", names("t", 4, 4) + names("a", 4) + names("b", 4), mode="field", functions=FUN, assumptions=LEAF, timeout=240, also=("C07",))
def action_line3d(ctx):
    geometer, gt = _g()
    T = ctx.arr("t", 4, 4)
    ctx.assume(_det_nonzero(ctx, T))
    a, b = ctx.vec("a", 4), ctx.vec("b", 4)
    ctx.assume(ctx.neg(dependent(ctx, [a, b])))
    t = gt.Transformation(T)
    l = _line_pp(ctx, geometer, a, b)
    tl = t * l
    Ma, Mb = rho_cov(T, a), rho_cov(T, b)
    ctx.ensure("kind", _same_kind(tl, l))
    ctx.ensure("C07:image-line-is-join-of-image-points", ctx.minors_zero(tl.array, geo.line3_from_points(Ma, Mb)), prop="C07")
    ctx.ensure("C07:image-line-contains-image-points", ctx.conj([on_line3(ctx, tl.array, Ma), on_line3(ctx, tl.array, Mb)]), prop="C07")
    back = t.inverse() * tl
    ctx.ensure("t.inverse()*(t*l)==l", ctx.conj([_same_kind(back, l), _eq_all(ctx, back.array, l.array)]))
    I = gt.identity(3)
    ctx.ensure("identity*l==l", _eq_all(ctx, (I * l).array, l.array))


# ------------------------------------------------------------------------------------- C07: join / meet commute


def _commute_case(name, dim, nargs, kind, op):
    n = dim + 1
    syms = names("t", n, n)
    for k in range(nargs):
        syms += names("abc"[k], n)

    @case("C07", "commute.%s" % name, syms, mode="field", functions=FUN + ["geometer.point._join_meet_duality"], timeout=240,
          tier=("experimental" if kind == "hyper" else "thorough") if (dim == 3 and nargs == 3) else "quick",  # meet of three transformed planes: > 30 min (inverse of a symbolic 4x4)
          assumptions=LEAF + ["both sides are non-zero: join/meet results are non-zero by the C01 contract (independent arguments; an invertible map preserves independence)"])
    def _(ctx):
        geometer, gt = _g()
        T = ctx.arr("t", n, n)
        ctx.assume(_det_nonzero(ctx, T))
        t = gt.Transformation(T)
        vs = [ctx.vec("abc"[k], n) for k in range(nargs)]
        ctx.assume(ctx.neg(dependent(ctx, vs)))
        cls = geometer.Point if kind == "point" else (geometer.Line if dim == 2 else geometer.Plane)
        objs = [cls(v) for v in vs]
        f = getattr(geometer, op)
        with ctx.stubs():
            r = f(*objs)
            lhs = t * r
            rhs = f(*[t * o for o in objs])
        ctx.ensure("t*%s(..)==%s(t*..)" % (op, op), ctx.conj([type(lhs) is type(rhs), lhs.tensor_shape == rhs.tensor_shape, ctx.minors_zero(lhs.array, rhs.array)]))


_commute_case("join.PP.2d", 2, 2, "point", "join")
_commute_case("meet.LL.2d", 2, 2, "hyper", "meet")
_commute_case("join.PP.3d", 3, 2, "point", "join")
_commute_case("join.PPP.3d", 3, 3, "point", "join")
_commute_case("meet.EE.3d", 3, 2, "hyper", "meet")
_commute_case("meet.EEE.3d", 3, 3, "hyper", "meet")


@case("C07", "commute.PL.EL.3d", names("t", 4, 4) + names("a", 4) + names("b", 4) + names("c", 4), mode="field",
      functions=FUN + ["geometer.point._join_meet_duality"], assumptions=LEAF, timeout=240, tier="experimental", explore_time=1800)  # two LinearDependenceError paths whose feasibility the ALG solver cannot decide (36 symbols)
def commute_pl_el(ctx):
    geometer, gt = _g()
    T = ctx.arr("t", 4, 4)
    ctx.assume(_det_nonzero(ctx, T))
    t = gt.Transformation(T)
    a, b, c = (ctx.vec(k, 4) for k in "abc")
    ctx.assume(ctx.neg(dependent(ctx, [a, b, c])))
    l = _line_pp(ctx, geometer, a, b)
    P = geometer.Point(c)
    with ctx.stubs():
        lhs = t * geometer.join(P, l)
        rhs = geometer.join(t * P, t * l)
    ctx.ensure("t*join(p,l)==join(t*p,t*l)", ctx.proj_eq(lhs.array, rhs.array))
    H = geometer.Plane(c)
    ctx.assume(ctx.neg(ctx.conj([on_hyper(ctx, c, a), on_hyper(ctx, c, b)])))
    with ctx.stubs():
        lhs = t * geometer.meet(H, l)
        rhs = geometer.meet(t * H, t * l)
    ctx.ensure("t*meet(e,l)==meet(t*e,t*l)", ctx.proj_eq(lhs.array, rhs.array))
    with ctx.stubs():
        c0 = H.contains(l)
        c1 = (t * H).contains(t * l)
    ctx.ensure("plane-contains-line-preserved", ctx.iff(ctx.conj([c0]), ctx.conj([c1])))


# ------------------------------------------------------------------------------------- polytopes


def _polytope_case(dim):
    n = dim + 1

    @case("C06", "action.polytopes.%dd" % dim, names("t", n, n) + names("a", n) + names("b", n) + names("c", n), mode="field",
          functions=FUN + ["geometer.shapes.SegmentTensor.__apply__", "geometer.shapes.PolygonTensor.__apply__"], assumptions=LEAF, timeout=240, also=("C07",),
          tier="thorough" if dim == 3 else "quick")
    def _(ctx):
        geometer, gt = _g()
        import geometer.shapes as gs

        T = ctx.arr("t", n, n)
        ctx.assume(_det_nonzero(ctx, T))
        t = gt.Transformation(T)
        a, b, c = (ctx.vec(k, n) for k in "abc")
        ctx.assume(ctx.neg(dependent(ctx, [a, b, c])))
        ctx.factor_hint(geo.det(geo.adjugate(tolist(T))), [geo.det(tolist(T))] * (n - 1))
        A, B, C = (geometer.Point(v) for v in (a, b, c))
        with ctx.stubs():
            seg = gs.Segment(A, B)
            line_before = tolist(seg._line.array)
            ts = t * seg
        ctx.ensure("segment:kind", type(ts) is gs.Segment and ts.pdim == 1 and tuple(ts.shape) == (2, n))
        ctx.ensure("C07:segment:vertices-are-images-in-order", ctx.conj([_eq_all(ctx, ts.array[0], rho_cov(T, a)), _eq_all(ctx, ts.array[1], rho_cov(T, b))]), prop="C07")
        # the cached supporting line moves along and is the join of the new vertices
        if dim == 2:
            ctx.ensure("segment:_line-is-join-of-image-vertices", ctx.minors_zero(ts._line.array, geo.cross(rho_cov(T, a), rho_cov(T, b))))
        else:
            ctx.ensure("segment:_line-is-join-of-image-vertices", ctx.minors_zero(ts._line.array, geo.line3_from_points(rho_cov(T, a), rho_cov(T, b))))
        ctx.ensure("segment:operand-_line-untouched", _eq_all(ctx, seg._line.array, line_before))
        with ctx.stubs():
            back = t.inverse() * ts
        ctx.ensure("segment:t.inverse()*(t*s)==s", ctx.conj([_eq_all(ctx, back.array[0], a), _eq_all(ctx, back.array[1], b), ctx.minors_zero(back._line.array, seg._line.array)]))
        with ctx.stubs():
            tri = gs.Triangle(A, B, C)
            tt = t * tri
        ctx.ensure("triangle:kind", type(tt) is gs.Triangle and tt.pdim == 2 and tuple(tt.shape) == (3, n))
        ctx.ensure("C07:triangle:vertices-are-images-in-order", ctx.conj([_eq_all(ctx, tt.array[k], rho_cov(T, v)) for k, v in enumerate((a, b, c))]), prop="C07")
        if dim == 3:
            ctx.ensure("triangle:_plane-is-join-of-image-vertices", ctx.minors_zero(tt._plane.array, geo.plane_from_points(*[rho_cov(T, v) for v in (a, b, c)])))
            ctx.ensure("triangle:_plane-contains-image-vertices", ctx.conj([on_hyper(ctx, tt._plane.array, rho_cov(T, v)) for v in (a, b, c)]))


_polytope_case(2)
_polytope_case(3)


@case("C06", "action.polygon3d.plane", names("t", 4, 4) + names("a", 4) + names("b", 4) + names("c", 4), mode="field",
      functions=FUN + ["geometer.shapes.PolygonTensor.__apply__"], assumptions=LEAF, timeout=240, also=("C07",))
def action_polygon3d_plane(ctx):
    """the cached supporting plane of a transformed 3D polygon is the plane of the IMAGE vertices"""
    geometer, gt = _g()
    import geometer.shapes as gs

    T = ctx.arr("t", 4, 4)
    ctx.assume(_det_nonzero(ctx, T))
    t = gt.Transformation(T)
    a, b, c = (ctx.vec(k, 4) for k in "abc")
    ctx.assume(ctx.neg(dependent(ctx, [a, b, c])))
    # ghost lemma: the images of independent points are independent (Cauchy-Binet): not needed by the clauses below,
    # the join of the images is evaluated by the real code under the path condition
    with ctx.stubs():
        tri = gs.Triangle(*[geometer.Point(v) for v in (a, b, c)])
        plane_before = tolist(tri._plane.array)
        tt = t * tri
    ctx.ensure("kind", type(tt) is gs.Triangle and tt.pdim == 2 and tuple(tt.shape) == (3, 4))
    ctx.ensure("C07:vertices-are-images-in-order", ctx.conj([_eq_all(ctx, tt.array[k], rho_cov(T, v)) for k, v in enumerate((a, b, c))]), prop="C07")
    ctx.ensure("_plane-contains-the-image-vertices", ctx.conj([on_hyper(ctx, tt._plane.array, rho_cov(T, v)) for v in (a, b, c)]))
    ctx.ensure("_plane-nonzero", ctx.neg(ctx.all_zero(tt._plane.array)))
    ctx.ensure("operand-_plane-untouched", _eq_all(ctx, tri._plane.array, plane_before))


@case("C07", "incidence.plane.line.3d", names("t", 4, 4) + names("a", 4) + names("b", 4) + names("h", 4), mode="field",
      functions=FUN + ["geometer.point.SubspaceTensor.contains", "geometer.point.LineTensor.covariant_tensor"], timeout=300,
      assumptions=LEAF + ["contains(plane, line) is the zero test of the contraction plane * line.covariant_tensor (read off the code); the contraction of the images is "
                          "proved proportional to the image M.v of the original contraction v, so it vanishes iff v does (M invertible)"])
def incidence_plane_line(ctx):
    """a plane contains a line iff the image plane contains the image line.  The quantities of the originals are asked
    FIRST (a stale cache carried over to the transformed line by the shallow copy would show here)"""
    geometer, gt = _g()
    T = ctx.arr("t", 4, 4)
    ctx.assume(_det_nonzero(ctx, T))
    t = gt.Transformation(T)
    a, b, h = ctx.vec("a", 4), ctx.vec("b", 4), ctx.vec("h", 4)
    ctx.assume(ctx.neg(dependent(ctx, [a, b])))
    ctx.assume(ctx.neg(ctx.all_zero(h)))
    l = _line_pp(ctx, geometer, a, b)
    H = geometer.Plane(h)
    with ctx.stubs():
        c0 = H.contains(l)
        v0 = tolist((H * l.covariant_tensor).array)
        spec = ctx.conj([on_hyper(ctx, h, a), on_hyper(ctx, h, b)])
        ctx.ensure("contains(plane,line)<=>both-generators-on-the-plane", ctx.iff(ctx.conj([c0]) if ctx.symbolic else bool(c0), spec))
        ctx.ensure("contains(plane,line)==zero-test-of-the-contraction", ctx.iff(ctx.conj([c0]) if ctx.symbolic else bool(c0), ctx.conj([ctx.zero(x) for x in v0])))
        tl, tH = t * l, t * H
        v1 = tolist((tH * tl.covariant_tensor).array)
    ctx.ensure("contraction-of-the-images~image-of-the-contraction", ctx.minors_zero(v1, geo.matvec(tolist(T), v0)))
    ctx.ensure("covariant-tensor-of-the-image-line-is-p^q-of-the-image-points",
               ctx.minors_zero(tl.covariant_tensor.array, geo.line3_cov_from_points(rho_cov(T, a), rho_cov(T, b))))


# ------------------------------------------------------------------------------------------------ bounded: dtypes and operation order
@case("C06", "action.dtype.order.lattice", [], kind="bounded", also=("C07",), share=True,
      functions=["geometer.transformation.TransformationTensor.inverse", "geometer.base.Tensor.__apply__", "geometer.transformation.TransformationTensor.__pow__", "geometer.curve.QuadricTensor.dual"],
      bound="INTEGER-dtype and float transformations with |det| != 1 (scalings, shears, 6 matrices in 2D, 4 in 3D) x lattice points/lines/planes/conics: inverse round trips, t**-1, t**k (k in -6..9), "
            "incidence and join/meet commutation; quadrics whose dual / tangency was evaluated BEFORE the transformation (cached state must not leak into the image)")
def action_dtype_order(ctx):
    import geometer as g
    from geometer.transformation import Transformation, scaling, translation, rotation
    from geometer.curve import Conic, Circle, Sphere, Quadric

    mats2 = [np.array([[2, 0, 0], [0, 3, 0], [0, 0, 1]]), np.array([[2, 1, 1], [0, 3, -1], [0, 0, 1]]), np.array([[1, 2, 0], [3, 1, 4], [0, 0, 2]]),
             np.array([[2.0, 1, 1], [0, 3, -1], [0, 0, 1]]), np.array([[1, 1, 0], [0, 1, 0], [0, 0, 1]]), np.array([[0, -2, 1], [2, 0, 3], [0, 0, 1]])]
    mats3 = [np.diag([2, 3, 5, 1]), np.array([[2, 1, 0, 1], [0, 3, 1, -1], [1, 0, 2, 2], [0, 0, 0, 1]]), np.array([[1, 0, 0, 2], [0, 1, 0, -3], [0, 0, 1, 1], [0, 0, 0, 2]]),
             np.array([[2.0, 1, 0, 1], [0, 3, 1, -1], [1, 0, 2, 2], [0, 0, 0, 1]])]
    pts2 = [(1, 2), (-3, 1), (0, 0), (2, -5), (4, 4)]
    pts3 = [(1, 2, 3), (-1, 0, 2), (0, 0, 0), (2, -2, 1), (3, 1, -1)]
    for m in mats2 + mats3:
        dim = m.shape[0] - 1
        t = Transformation(m)
        w = dict(matrix=m.tolist(), dtype=str(m.dtype))
        pts = [g.Point(*p) for p in (pts2 if dim == 2 else pts3)]
        inv = t.inverse()
        ok = np.allclose(np.asarray(inv.array, dtype=float) @ np.asarray(m, dtype=float), np.eye(dim + 1), atol=1e-9)
        ctx.ensure("inverse-is-the-matrix-inverse", ok, witness=dict(w, got=np.asarray(inv.array).tolist()))
        ctx.ensure("inverse-round-trip-on-points", all(inv * (t * p) == p and t * (inv * p) == p for p in pts), witness=w)
        ctx.ensure("t**-1==inverse", (t ** -1) == inv, witness=w)
        # powers against the matrix power (projectively)
        for k in range(-6, 10):
            want = np.linalg.matrix_power(np.asarray(m, dtype=float), k)
            got = np.asarray((t ** k).array, dtype=float)
            a, b = got.reshape(-1), want.reshape(-1)
            ok = np.linalg.matrix_rank(np.array([a / np.abs(a).max(), b / np.abs(b).max()]), tol=1e-9) == 1
            ctx.ensure("t**k==matrix-power", ok, witness=dict(w, k=k))
        # hyperplanes and incidence
        if dim == 2:
            for a, b in itertools.combinations(pts, 2):
                l = g.join(a, b)
                tl = t * l
                ctx.ensure("incidence-preserved(join)", bool(tl.contains(t * a)) and bool(tl.contains(t * b)) and tl == g.join(t * a, t * b), witness=dict(w, points=(a.array.tolist(), b.array.tolist())))
            l1, l2 = g.Line(1, 2, -3), g.Line(2, -1, 4)
            ctx.ensure("meet-commutes", t * g.meet(l1, l2) == g.meet(t * l1, t * l2), witness=w)
            c = Circle(g.Point(1, -1), 2)
            on = g.Point(3, -1)
            ctx.ensure("point-stays-on-the-conic", bool((t * c).contains(t * on)), witness=w)
        else:
            for a, b, c_ in itertools.combinations(pts, 3):
                try:
                    e = g.join(a, b, c_)
                except Exception:
                    continue
                te = t * e
                ctx.ensure("incidence-preserved(join)", all(bool(te.contains(t * x)) for x in (a, b, c_)) and te == g.join(t * a, t * b, t * c_), witness=w)
            l = g.join(pts[0], pts[1])
            ctx.ensure("3d-line-image-contains-the-image-points", bool((t * l).contains(t * pts[0])) and bool((t * l).contains(t * pts[1])) and (t * l) == g.join(t * pts[0], t * pts[1]), witness=w)
    # operation order: state computed on the original must not leak into the image
    for t in [translation(2, -1), rotation(0.7) * translation(1, 1), Transformation(np.array([[2.0, 1, 1], [0, 3, -1], [0, 0, 1]]))]:
        for q, on, tangent in [(Circle(g.Point(0, 0), 2), g.Point(2, 0), g.Line(1, 0, -2)), (Conic(np.diag([1.0, 4.0, -4.0])), g.Point(2, 0), g.Line(1, 0, -2))]:
            d0 = q.dual
            t0 = bool(q.is_tangent(tangent))
            tq = t * q
            w = dict(transformation=np.asarray(t.array).round(4).tolist(), quadric=type(q).__name__)
            ok = t0 and bool(tq.contains(t * on)) and bool(tq.is_tangent(t * tangent)) and not bool(tq.is_tangent(tangent) and not (t * tangent == tangent)) and tq.dual == (t * d0)
            ctx.ensure("dual/tangency-evaluated-before-the-transformation-do-not-leak", ok, witness=w)
    s = Sphere(g.Point(0, 0, 0), 2)
    e = g.Plane(1, 0, 0, -2)
    _ = s.dual, s.is_tangent(e)
    t = translation(1, 2, 3)
    ts = t * s
    ctx.ensure("dual/tangency-evaluated-before-the-transformation-do-not-leak", bool(ts.is_tangent(t * e)) and not bool(ts.is_tangent(e)) and bool(ts.contains(t * g.Point(2, 0, 0))), witness="sphere")
    # collections on both sides of the batch threshold 64 of utils.math.inv, with small homogeneous representatives (det ~ 1e-9 .. 1e-12)
    from geometer.transformation import TransformationCollection
    rs = np.random.RandomState(2)
    for nb in (63, 64, 70):
        for dim, scale in ((2, 1e-3), (3, 1e-3), (2, 1e-4)):
            mats = rs.randint(-1, 2, size=(nb, dim + 1, dim + 1)).astype(float) + 5 * np.eye(dim + 1)  # strictly diagonally dominant: invertible
            tc = TransformationCollection(mats * scale)
            w = dict(batch=nb, dim=dim, scale=scale)
            try:
                inv = tc.inverse()
                prod = np.einsum("nij,njk->nik", np.asarray(inv.array, dtype=float), mats * scale)
                ok = all(np.allclose(prod[k] / prod[k][0, 0], np.eye(dim + 1), atol=1e-7) for k in range(nb))
                pc = g.PointCollection(np.hstack([rs.randint(-3, 4, size=(nb, dim)).astype(float), np.ones((nb, 1))]))
                ok = ok and (inv * (tc * pc)) == pc
            except Exception as e:
                ok = False
                w["exception"] = "%s: %s" % (type(e).__name__, str(e)[:100])
            ctx.ensure("collection-inverse-with-small-representatives-both-sides-of-64", ok, witness=w)
    # a transformation that is used, edited in place (Tensor.__setitem__ / .array) and used again must act with its CURRENT matrix
    for dim, m0, edit in [(2, [[2.0, 1, 1], [0, 3, -1], [0, 0, 1]], ((0, 1), 5.0)), (3, [[2.0, 1, 0, 1], [0, 3, 1, -1], [1, 0, 2, 2], [0, 0, 0, 1]], ((2, 3), -4.0))]:
        for how in ("setitem", "array"):
            t = Transformation(np.array(m0))
            pts = [g.Point(*p) for p in (pts2 if dim == 2 else pts3)]
            h = g.join(*pts[:dim])
            _ = t.inverse(), t * h, t ** -1  # first use (anything derived from the matrix may have been stored)
            if how == "setitem":
                t[edit[0]] = edit[1]
            else:
                t.array[edit[0]] = edit[1]
            m1 = np.array(m0)
            m1[edit[0]] = edit[1]
            w = dict(dim=dim, edit=how)
            inv = t.inverse()
            ok = np.allclose(np.asarray(inv.array, dtype=float) @ m1, np.eye(dim + 1) * (np.asarray(inv.array, dtype=float) @ m1)[0, 0], atol=1e-9)
            th = t * h
            ok = ok and all(bool(th.contains(t * x)) for x in pts[:dim]) and all(inv * (t * x) == x for x in pts) and th == g.join(*[t * x for x in pts[:dim]])
            ctx.ensure("in-place-edit-between-two-uses:the-current-matrix-acts", ok, witness=w)
    p = g.Point(1, 2)
    l = g.Line(1, 1, -3)
    _ = l.contains(p), l.base_point, l.direction, l.basis_matrix
    t = translation(5, 5)
    ctx.ensure("line-queried-before-the-transformation", bool((t * l).contains(t * p)) and not bool((t * l).contains(p)) and (t * l).base_point != l.base_point, witness="2d line")

"""C01 / C02: contracts of geometer.point._join_meet_duality (through join / meet), the power-of-two
normalisation and the co/contravariant switch of 3D lines.

Every case is explored in *field* mode: the symbols range over all complex numbers, finite points and
points at infinity alike; degenerate strata are explicit paths.  3D line arguments are given as valid
line tensors through the two exhaustive parametrisations  L = eps(p, q)  and  L = e ^ f.
"""
from __future__ import annotations

import itertools

import numpy as np

from gvc.harness import case, names
from contracts import geo
from contracts.geo import dot, tolist

FUN = ["geometer.point._join_meet_duality", "geometer.point.join", "geometer.point.meet",
       "geometer.base.TensorDiagram.calculate", "geometer.base.LeviCivitaTensor.__init__", "geometer.base.Tensor.is_zero"]


def _g():
    import geometer
    from geometer import exceptions as ex

    return geometer, ex


def on_hyper(ctx, h, x):
    return ctx.zero(dot(tolist(h), tolist(x)))


def on_line3(ctx, L, x):
    return ctx.conj([ctx.zero(v) for v in geo.line_contains_point(tolist(L), tolist(x))])


def line_in_plane(ctx, h, L):
    return ctx.conj([ctx.zero(v) for v in geo.plane_contains_line(tolist(h), tolist(L))])


def valid_line3(ctx, L):
    L = tolist(L)
    return ctx.conj([ctx.zero(v) for v in geo.is_antisymmetric(L)] + [ctx.zero(geo.pluecker_relation(L))])


def dependent(ctx, rows):
    """rank of the generator matrix is not maximal: all maximal minors vanish"""
    return ctx.conj([ctx.zero(m) for m in geo.maximal_minors([tolist(r) for r in rows])])


def run_op(ctx, op, args, dep, skew=None, **kw):
    """call join/meet; apply the C02 raises clauses; return the result or None when it raised.
    dep : formula 'arguments are linearly dependent';  skew: formula 'the two lines are skew' or None"""
    geometer, ex = _g()
    try:
        with ctx.stubs():
            r = op(*args, **kw)
    except ex.NotCoplanar:
        ctx.ensure("C02:raises-NotCoplanar-only-if-skew", skew if skew is not None else ctx.conj([ctx.neg(True)]), prop="C02")
        return None
    except ex.LinearDependenceError as e:
        ctx.ensure("C02:raises-LinearDependence-only-if-dependent", dep, prop="C02")
        return None
    ctx.ensure("C02:returns-only-if-independent", ctx.neg(dep), prop="C02")
    if skew is not None:
        ctx.ensure("C02:returns-only-if-coplanar", ctx.neg(skew), prop="C02")
    return r


def nonzero(ctx, r):
    return ctx.neg(ctx.all_zero(r.array))


# --------------------------------------------------------------------------------------------- 2D


@case("C01", "join.PP.2d", names("p", 3) + names("q", 3), mode="field", functions=FUN, also=("C02",))
def join_pp_2d(ctx):
    geometer, ex = _g()
    p, q = geometer.Point(ctx.vec("p", 3)), geometer.Point(ctx.vec("q", 3))
    l = run_op(ctx, geometer.join, (p, q), dependent(ctx, [p.array, q.array]))
    if l is None:
        return
    ctx.ensure("kind", isinstance(l, geometer.Line) and l.tensor_shape == (0, 1) and l.shape == (3,))
    ctx.ensure("incident", ctx.conj([on_hyper(ctx, l.array, p.array), on_hyper(ctx, l.array, q.array)]))
    ctx.ensure("spec-cross-product", ctx.proj_eq(l.array, geo.cross(tolist(p), tolist(q))))
    ctx.ensure("nonzero", nonzero(ctx, l))
    with ctx.stubs():
        l2 = geometer.join(q, p)
    ctx.ensure("order-independent", ctx.proj_eq(l.array, l2.array))


@case("C01", "meet.LL.2d", names("g", 3) + names("h", 3), mode="field", functions=FUN, also=("C02",))
def meet_ll_2d(ctx):
    geometer, ex = _g()
    g, h = geometer.Line(ctx.vec("g", 3)), geometer.Line(ctx.vec("h", 3))
    x = run_op(ctx, geometer.meet, (g, h), dependent(ctx, [g.array, h.array]))
    if x is None:
        return
    ctx.ensure("kind", isinstance(x, geometer.Point) and x.tensor_shape == (1, 0) and x.shape == (3,))
    ctx.ensure("incident", ctx.conj([on_hyper(ctx, g.array, x.array), on_hyper(ctx, h.array, x.array)]))
    ctx.ensure("spec-cross-product", ctx.proj_eq(x.array, geo.cross(tolist(g), tolist(h))))
    ctx.ensure("nonzero", nonzero(ctx, x))
    with ctx.stubs():
        x2 = geometer.meet(h, g)
    ctx.ensure("order-independent", ctx.proj_eq(x.array, x2.array))


@case("C01", "roundtrip.2d", names("p", 3) + names("q", 3) + names("r", 3), mode="field", functions=FUN)
def roundtrip_2d(ctx):
    geometer, ex = _g()
    p, q, r = (geometer.Point(ctx.vec(n, 3)) for n in "pqr")
    ctx.assume(ctx.neg(ctx.zero(geo.det([tolist(p), tolist(q), tolist(r)]))))
    with ctx.stubs():
        x = geometer.meet(geometer.join(p, q), geometer.join(p, r))
    ctx.ensure("meet(join(p,q),join(p,r))~p", ctx.proj_eq(x.array, p.array))
    # dual statement with the same symbols read as lines
    l, m, n = (geometer.Line(ctx.vec(n, 3)) for n in "pqr")
    with ctx.stubs():
        y = geometer.join(geometer.meet(l, m), geometer.meet(l, n))
    ctx.ensure("join(meet(l,m),meet(l,n))~l", ctx.proj_eq(y.array, l.array))


# --------------------------------------------------------------------------------------------- 3D


@case("C01", "join.PP.3d", names("p", 4) + names("q", 4), mode="field", functions=FUN, also=("C02",))
def join_pp_3d(ctx):
    geometer, ex = _g()
    p, q = geometer.Point(ctx.vec("p", 4)), geometer.Point(ctx.vec("q", 4))
    l = run_op(ctx, geometer.join, (p, q), dependent(ctx, [p.array, q.array]))
    if l is None:
        return
    ctx.ensure("kind", isinstance(l, geometer.Line) and l.tensor_shape == (0, 2) and l.shape == (4, 4))
    ctx.ensure("incident", ctx.conj([on_line3(ctx, l.array, p.array), on_line3(ctx, l.array, q.array)]))
    ctx.ensure("valid-line-tensor", valid_line3(ctx, l.array))
    ctx.ensure("spec-pluecker", ctx.proj_eq(l.array, geo.line3_from_points(tolist(p), tolist(q))))
    ctx.ensure("nonzero", nonzero(ctx, l))
    with ctx.stubs():
        l2 = geometer.join(q, p)
    ctx.ensure("order-independent", ctx.proj_eq(l.array, l2.array))
    # Line(p, q) constructor is the same join
    with ctx.stubs():
        l3 = geometer.Line(p, q)
    ctx.ensure("Line(p,q)-constructor", ctx.proj_eq(l.array, l3.array))
    # co/contravariant switch
    c = l.covariant_tensor
    ctx.ensure("covariant-tensor-is-p^q", ctx.conj([c.tensor_shape == (2, 0), ctx.proj_eq(c.array, geo.line3_cov_from_points(tolist(p), tolist(q)))]))
    back = c.contravariant_tensor
    ctx.ensure("contravariant(covariant(l))~l", ctx.conj([back.tensor_shape == (0, 2), ctx.proj_eq(back.array, l.array)]))


@case("C01", "join.PPP.3d", names("p", 4) + names("q", 4) + names("r", 4), mode="field", functions=FUN, also=("C02",))
def join_ppp_3d(ctx):
    geometer, ex = _g()
    p, q, r = (geometer.Point(ctx.vec(n, 4)) for n in "pqr")
    e = run_op(ctx, geometer.join, (p, q, r), dependent(ctx, [p.array, q.array, r.array]))
    if e is None:
        return
    ctx.ensure("kind", isinstance(e, geometer.Plane) and e.tensor_shape == (0, 1) and e.shape == (4,))
    ctx.ensure("incident", ctx.conj([on_hyper(ctx, e.array, v.array) for v in (p, q, r)]))
    ctx.ensure("spec-cofactors", ctx.proj_eq(e.array, geo.plane_from_points(tolist(p), tolist(q), tolist(r))))
    ctx.ensure("nonzero", nonzero(ctx, e))
    for perm in ((q, p, r), (r, q, p), (q, r, p)):
        with ctx.stubs():
            e2 = geometer.join(*perm)
        ctx.ensure("order-independent", ctx.proj_eq(e.array, e2.array))
    with ctx.stubs():
        e3 = geometer.Plane(p, q, r)
    ctx.ensure("Plane(p,q,r)-constructor", ctx.proj_eq(e.array, e3.array))


def _line_pp(ctx, geometer, a, b):
    """a valid 3D line tensor through two symbolic points (spec construction, not geometer's join)"""
    return geometer.Line(np.array(geo.line3_from_points(tolist(a), tolist(b)), dtype=object if ctx.symbolic else None))


def _line_ef(ctx, geometer, e, f):
    return geometer.Line(np.array(geo.line3_from_planes(tolist(e), tolist(f)), dtype=object if ctx.symbolic else None))


@case("C01", "join.PL.3d", names("p", 4) + names("a", 4) + names("b", 4), mode="field", functions=FUN, also=("C02",))
def join_pl_3d(ctx):
    geometer, ex = _g()
    p, a, b = (ctx.vec(n, 4) for n in "pab")
    ctx.assume(ctx.neg(dependent(ctx, [a, b])))  # requires: l is a line
    l = _line_pp(ctx, geometer, a, b)
    P = geometer.Point(p)
    dep = dependent(ctx, [p, a, b])
    for order, args in (("PL", (P, l)), ("LP", (l, P))):
        e = run_op(ctx, geometer.join, args, dep)
        if e is None:
            continue
        ctx.ensure("kind", isinstance(e, geometer.Plane) and e.tensor_shape == (0, 1) and e.shape == (4,))
        ctx.ensure("incident-%s" % order, ctx.conj([on_hyper(ctx, e.array, v) for v in (p, a, b)]))
        ctx.ensure("spec-cofactors-%s" % order, ctx.proj_eq(e.array, geo.plane_from_points(tolist(p), tolist(a), tolist(b))))
        ctx.ensure("nonzero", nonzero(ctx, e))


@case("C01", "join.PL.3d.linefromplanes", names("p", 4) + names("e", 4) + names("f", 4), mode="field", functions=FUN, also=("C02",))
def join_pl_3d_ef(ctx):
    geometer, ex = _g()
    p, e, f = (ctx.vec(n, 4) for n in "pef")
    ctx.assume(ctx.neg(dependent(ctx, [e, f])))
    l = _line_ef(ctx, geometer, e, f)
    P = geometer.Point(p)
    # p on the line  <=>  p on both planes
    dep = ctx.conj([on_hyper(ctx, e, p), on_hyper(ctx, f, p)])
    h = run_op(ctx, geometer.join, (P, l), dep)
    if h is None:
        return
    ctx.ensure("kind", isinstance(h, geometer.Plane) and h.tensor_shape == (0, 1))
    ctx.ensure("incident-point", on_hyper(ctx, h.array, p))
    ctx.ensure("contains-line", line_in_plane(ctx, h.array, l.array))
    # the plane through p in the pencil e, f:  (f.p) e - (e.p) f
    spec = [dot(tolist(f), tolist(p)) * x - dot(tolist(e), tolist(p)) * y for x, y in zip(tolist(e), tolist(f))]
    ctx.ensure("spec-pencil", ctx.proj_eq(h.array, spec))


@case("C01", "meet.EE.3d", names("e", 4) + names("f", 4), mode="field", functions=FUN, also=("C02",))
def meet_ee_3d(ctx):
    geometer, ex = _g()
    e, f = geometer.Plane(ctx.vec("e", 4)), geometer.Plane(ctx.vec("f", 4))
    l = run_op(ctx, geometer.meet, (e, f), dependent(ctx, [e.array, f.array]))
    if l is None:
        return
    ctx.ensure("kind", isinstance(l, geometer.Line) and l.tensor_shape == (0, 2) and l.shape == (4, 4))
    ctx.ensure("valid-line-tensor", valid_line3(ctx, l.array))
    ctx.ensure("contained", ctx.conj([line_in_plane(ctx, e.array, l.array), line_in_plane(ctx, f.array, l.array)]))
    ctx.ensure("spec-e^f", ctx.proj_eq(l.array, geo.line3_from_planes(tolist(e), tolist(f))))
    ctx.ensure("nonzero", nonzero(ctx, l))
    with ctx.stubs():
        l2 = geometer.meet(f, e)
    ctx.ensure("order-independent", ctx.proj_eq(l.array, l2.array))


@case("C01", "meet.EEE.3d", names("e", 4) + names("f", 4) + names("g", 4), mode="field", functions=FUN, also=("C02",))
def meet_eee_3d(ctx):
    geometer, ex = _g()
    e, f, g = (geometer.Plane(ctx.vec(n, 4)) for n in "efg")
    x = run_op(ctx, geometer.meet, (e, f, g), dependent(ctx, [e.array, f.array, g.array]))
    if x is None:
        return
    ctx.ensure("kind", isinstance(x, geometer.Point) and x.tensor_shape == (1, 0) and x.shape == (4,))
    ctx.ensure("incident", ctx.conj([on_hyper(ctx, h.array, x.array) for h in (e, f, g)]))
    ctx.ensure("spec-cofactors", ctx.proj_eq(x.array, geo.plane_from_points(tolist(e), tolist(f), tolist(g))))
    ctx.ensure("nonzero", nonzero(ctx, x))
    for perm in ((f, e, g), (g, f, e), (f, g, e)):
        with ctx.stubs():
            x2 = geometer.meet(*perm)
        ctx.ensure("order-independent", ctx.proj_eq(x.array, x2.array))


@case("C01", "meet.EL.3d", names("h", 4) + names("a", 4) + names("b", 4), mode="field", functions=FUN, also=("C02",))
def meet_el_3d(ctx):
    geometer, ex = _g()
    h, a, b = (ctx.vec(n, 4) for n in "hab")
    ctx.assume(ctx.neg(dependent(ctx, [a, b])))
    l = _line_pp(ctx, geometer, a, b)
    H = geometer.Plane(h)
    # the line lies in the plane <=> both generators do
    dep = ctx.conj([on_hyper(ctx, h, a), on_hyper(ctx, h, b)])
    for order, args in (("EL", (H, l)), ("LE", (l, H))):
        x = run_op(ctx, geometer.meet, args, dep)
        if x is None:
            continue
        ctx.ensure("kind", isinstance(x, geometer.Point) and x.tensor_shape == (1, 0) and x.shape == (4,))
        ctx.ensure("incident-%s" % order, ctx.conj([on_hyper(ctx, h, x.array), on_line3(ctx, l.array, x.array)]))
        # the point (h.b) a - (h.a) b
        spec = [dot(tolist(h), tolist(b)) * x_ - dot(tolist(h), tolist(a)) * y_ for x_, y_ in zip(tolist(a), tolist(b))]
        ctx.ensure("spec-%s" % order, ctx.proj_eq(x.array, spec))
        ctx.ensure("nonzero", nonzero(ctx, x))


@case("C01", "meet.EL.3d.linefromplanes", names("h", 4) + names("e", 4) + names("f", 4), mode="field", functions=FUN, also=("C02",))
def meet_el_3d_ef(ctx):
    geometer, ex = _g()
    h, e, f = (ctx.vec(n, 4) for n in "hef")
    ctx.assume(ctx.neg(dependent(ctx, [e, f])))
    l = _line_ef(ctx, geometer, e, f)
    x = run_op(ctx, geometer.meet, (geometer.Plane(h), l), dependent(ctx, [h, e, f]))
    if x is None:
        return
    ctx.ensure("incident", ctx.conj([on_hyper(ctx, v, x.array) for v in (h, e, f)]))
    ctx.ensure("spec-cofactors", ctx.proj_eq(x.array, geo.plane_from_points(tolist(h), tolist(e), tolist(f))))


def _ll_coplanar(ctx, which):
    """two lines through a common point a (coplanar by construction): meet -> a, join -> plane abc"""
    geometer, ex = _g()
    a, b, c = (ctx.vec(n, 4) for n in "abc")
    ctx.assume(ctx.neg(dependent(ctx, [a, b])))
    ctx.assume(ctx.neg(dependent(ctx, [a, c])))
    l, m = _line_pp(ctx, geometer, a, b), _line_pp(ctx, geometer, a, c)
    dep = dependent(ctx, [a, b, c])  # same line
    if which == "meet":
        x = run_op(ctx, geometer.meet, (l, m), dep)
        if x is not None:
            ctx.ensure("meet-kind", isinstance(x, geometer.Point) and x.tensor_shape == (1, 0) and x.shape == (4,))
            ctx.ensure("meet-is-common-point", ctx.proj_eq(x.array, a))
            ctx.ensure("meet-incident", ctx.conj([on_line3(ctx, l.array, x.array), on_line3(ctx, m.array, x.array)]))
    elif which == "join":
        e = run_op(ctx, geometer.join, (l, m), dep)
        if e is not None:
            ctx.ensure("join-kind", isinstance(e, geometer.Plane) and e.tensor_shape == (0, 1) and e.shape == (4,))
            ctx.ensure("join-is-plane-abc", ctx.proj_eq(e.array, geo.plane_from_points(tolist(a), tolist(b), tolist(c))))
            ctx.ensure("join-contains-lines", ctx.conj([line_in_plane(ctx, e.array, l.array), line_in_plane(ctx, e.array, m.array)]))
    else:
        with ctx.stubs():
            ctx.ensure("is_coplanar-true", ctx.conj([l.is_coplanar(m)]))


for _w in ("meet", "join", "is_coplanar"):
    case("C01", "LL.coplanar.3d.%s" % _w, names("a", 4) + names("b", 4) + names("c", 4), mode="field", functions=FUN,
         also=("C02",), max_paths=200)(lambda ctx, _w=_w: _ll_coplanar(ctx, _w))


def _ll_general(ctx, which):
    """two arbitrary lines ab, cd: NotCoplanar <=> det[a,b,c,d] != 0 (only the raises clauses are stated here;
    the coplanar results are covered by the exhaustive parametrisation LL.coplanar.3d)"""
    geometer, ex = _g()
    a, b, c, d = (ctx.vec(n, 4) for n in "abcd")
    ctx.assume(ctx.neg(dependent(ctx, [a, b])))
    ctx.assume(ctx.neg(dependent(ctx, [c, d])))
    l, m = _line_pp(ctx, geometer, a, b), _line_pp(ctx, geometer, c, d)
    skew = ctx.neg(ctx.zero(geo.det([tolist(v) for v in (a, b, c, d)])))
    if which == "is_coplanar":
        with ctx.stubs():
            cop = l.is_coplanar(m)
        ctx.ensure("is_coplanar<=>det=0", ctx.iff(ctx.conj([cop]), ctx.neg(skew)))
        return
    op = getattr(geometer, which)
    try:
        with ctx.stubs():
            op(l, m, _check_dependence=False)
    except ex.NotCoplanar:
        ctx.ensure("%s-raises-NotCoplanar-only-if-skew" % which, skew)
        return
    ctx.ensure("%s-returns-only-if-coplanar" % which, ctx.neg(skew))


for _w in ("meet", "join", "is_coplanar"):
    case("C02", "LL.general.3d.%s" % _w, names("a", 4) + names("b", 4) + names("c", 4) + names("d", 4), mode="field",
         functions=FUN, max_paths=200)(lambda ctx, _w=_w: _ll_general(ctx, _w))


@case("C01", "roundtrip.3d.points", names("p", 4) + names("q", 4) + names("r", 4), mode="field", functions=FUN)
def roundtrip_3d(ctx):
    geometer, ex = _g()
    p, q, r = (geometer.Point(ctx.vec(n, 4)) for n in "pqr")
    ctx.assume(ctx.neg(dependent(ctx, [p.array, q.array, r.array])))
    with ctx.stubs():
        x = geometer.meet(geometer.join(p, q), geometer.join(p, r))
    ctx.ensure("meet(join(p,q),join(p,r))~p", ctx.proj_eq(x.array, p.array))


@case("C01", "roundtrip.3d.planes", names("p", 4) + names("q", 4) + names("r", 4), mode="field", functions=FUN)
def roundtrip_3d_planes(ctx):
    geometer, ex = _g()
    e, f, g = (geometer.Plane(ctx.vec(n, 4)) for n in "pqr")
    ctx.assume(ctx.neg(dependent(ctx, [e.array, f.array, g.array])))
    with ctx.stubs():
        y = geometer.join(geometer.meet(e, f), geometer.meet(e, g))
    ctx.ensure("join(meet(e,f),meet(e,g))~e", ctx.proj_eq(y.array, e.array))


# ----------------------------------------------------------------- power-of-two normalisation (body)


@case("C01", "divpow2.real", names("x", 2, 2) + ["P"], mode="real", functions=["geometer.point._divide_by_power_of_two"], spare=40)
def divpow2_real(ctx):
    """body of _divide_by_power_of_two against the contract used by the stub: result == array * 2**-power"""
    from geometer.point import _divide_by_power_of_two
    from gvc.snp import ExpSym

    x = ctx.arr("x", 2, 2)
    P = ctx.sym("P")
    if ctx.symbolic:
        ctx.assume(P > 0)
        power = np.empty((1, 1), dtype=object)
        power[0, 0] = ExpSym(P)
        r = _divide_by_power_of_two(x, power)
        ctx.ensure("result==array/2^k", ctx.conj([ctx.zero(r[i, j] * P - x[i, j]) for i in range(2) for j in range(2)]))
    else:
        k = 3
        r = _divide_by_power_of_two(x, np.array([[k]]))
        ctx.ensure("result==array/2^k", ctx.conj([ctx.zero(r[i, j] * 2 ** k - x[i, j]) for i in range(2) for j in range(2)]))


@case("C01", "divpow2.complex", names("a", 2, 2) + names("b", 2, 2) + ["P"], mode="real", functions=["geometer.point._divide_by_power_of_two"], spare=60)
def divpow2_complex(ctx):
    """complex branch of _divide_by_power_of_two (dtype.kind == 'c': real and imaginary parts are split by frexp separately and
    written through the .real / .imag views of a fresh array) against the same contract: result == array * 2**-power"""
    from geometer.point import _divide_by_power_of_two
    from gvc.snp import CSymArray, ExpSym
    from gvc.sym import Sym

    a = ctx.arr("a", 2, 2)
    b = ctx.arr("b", 2, 2)
    P = ctx.sym("P")
    if ctx.symbolic:
        ctx.assume(P > 0)
        x = np.empty((2, 2), dtype=object)
        for i in np.ndindex(2, 2):
            x[i] = a[i] + Sym.const(1j) * b[i]
        x = x.view(CSymArray)
        before = [x.view(np.ndarray)[i] for i in np.ndindex(2, 2)]
        power = np.empty((1, 1), dtype=object)
        power[0, 0] = ExpSym(P)
        r = _divide_by_power_of_two(x, power)
        rb = np.asarray(r).view(np.ndarray)
        ctx.ensure("complex:branch-taken", x.dtype.kind == "c" and r is not x)
        ctx.ensure("complex:real-part==re(array)/2^k", ctx.conj([ctx.zero(Sym.const(rb[i]).real * P - a[i]) for i in np.ndindex(2, 2)]))
        ctx.ensure("complex:imag-part==im(array)/2^k", ctx.conj([ctx.zero(Sym.const(rb[i]).imag * P - b[i]) for i in np.ndindex(2, 2)]))
        ctx.ensure("complex:argument-unchanged", all(x.view(np.ndarray)[i] is before[k] for k, i in enumerate(np.ndindex(2, 2))))
    else:
        k = 3
        x = (np.asarray(a, dtype=float) + 1j * np.asarray(b, dtype=float)).astype(complex)
        x0 = x.copy()
        r = _divide_by_power_of_two(x, np.array([[k]]))
        ctx.ensure("complex:branch-taken", x.dtype.kind == "c" and r is not x)
        ctx.ensure("complex:real-part==re(array)/2^k", ctx.conj([ctx.zero(r[i].real * 2 ** k - a[i]) for i in np.ndindex(2, 2)]))
        ctx.ensure("complex:imag-part==im(array)/2^k", ctx.conj([ctx.zero(r[i].imag * 2 ** k - b[i]) for i in np.ndindex(2, 2)]))
        ctx.ensure("complex:argument-unchanged", bool(np.array_equal(x, x0)))


@case("C01", "join.meet.lattice.extreme", [], kind="bounded", functions=FUN + ["geometer.point._divide_by_power_of_two"],
      bound="2D/3D joins and meets of axis points/lines/planes with coordinates in {1, -3, 2**30, 2**60, -3*2**60} (every result entry is a single product: exact in double precision), "
            "incidence checked EXACTLY with rational arithmetic; normalisation must not change the projective class")
def join_meet_extreme(ctx):
    from fractions import Fraction

    import geometer as g

    vals = [1, -3, 2 ** 30, 2 ** 60, -3 * 2 ** 60]

    def F(x):
        return [Fraction(float(v)) for v in np.asarray(x).reshape(-1)]

    def dotF(a, b):
        return sum(x * y for x, y in zip(a, b))

    # axis points: every entry of the result is a single product, hence exact in double precision
    for a, b in itertools.product(vals, repeat=2):
        p, q = (a, 0, 1), (0, b, 1)
        l = g.join(g.Point([float(v) for v in p]), g.Point([float(v) for v in q]))
        ctx.ensure("2d:join-incident-exactly", dotF(F(l.array), [Fraction(x) for x in p]) == 0 and dotF(F(l.array), [Fraction(x) for x in q]) == 0 and any(F(l.array)),
                   witness=dict(p=p, q=q, got=l.array.tolist()))
        x = g.meet(g.Line([float(v) for v in p]), g.Line([float(v) for v in q]))
        ctx.ensure("2d:meet-incident-exactly", dotF(F(x.array), [Fraction(v) for v in p]) == 0 and dotF(F(x.array), [Fraction(v) for v in q]) == 0 and any(F(x.array)),
                   witness=dict(g=p, h=q, got=x.array.tolist()))
    for a, b, c in itertools.product(vals[:4], repeat=3):
        tri = [(a, 0, 0, 1), (0, b, 0, 1), (0, 0, c, 1)]
        e = g.join(*[g.Point([float(x_) for x_ in v]) for v in tri])
        ctx.ensure("3d:join-PPP-incident-exactly", all(dotF(F(e.array), [Fraction(x) for x in v]) == 0 for v in tri) and any(F(e.array)), witness=dict(points=tri, got=e.array.tolist()))
        x = g.meet(*[g.Plane([float(x_) for x_ in v]) for v in tri])
        ctx.ensure("3d:meet-EEE-incident-exactly", all(dotF(F(x.array), [Fraction(v_) for v_ in v]) == 0 for v in tri) and any(F(x.array)), witness=dict(planes=tri, got=x.array.tolist()))
        ln = g.join(g.Point([float(x_) for x_ in tri[0]]), g.Point([float(x_) for x_ in tri[1]]))
        ok = all(all(v == 0 for v in [sum(F(ln.array)[4 * k + l_] * Fraction(pt[k]) for k in range(4)) for l_ in range(4)]) for pt in tri[:2])
        ctx.ensure("3d:join-PP-incident-exactly", ok and any(F(ln.array)), witness=dict(points=tri[:2], got=ln.array.tolist()))


def _mask_case(name, dim, kinds, op):
    n = dim + 1
    syms = []
    for i, (k, coll) in enumerate(kinds):
        syms += names("x%d_" % i, *((2,) if coll else ()), n)

    @case("C02", "mask.%s" % name, syms, mode="field", functions=FUN + ["geometer.exceptions.LinearDependenceError.__init__"], max_paths=200,
          assumptions=["collection shape (2,) enumerated (bounded in the shape)"])
    def _(ctx):
        geometer, ex = _g()
        cls = {"P": (geometer.Point, geometer.PointCollection), "E": (geometer.Plane if dim == 3 else geometer.Line, geometer.PlaneCollection if dim == 3 else geometer.LineCollection)}
        arrs, objs = [], []
        for i, (k, coll) in enumerate(kinds):
            a = ctx.arr("x%d_" % i, *((2,) if coll else ()), n)
            arrs.append(a)
            objs.append(cls[k][1 if coll else 0](a))
        deps = [dependent(ctx, [a[k] if a.ndim == 2 else a for a in arrs]) for k in range(2)]
        try:
            with ctx.stubs():
                getattr(geometer, op)(*objs)
        except ex.LinearDependenceError as e:
            mask = np.asarray(e.dependent_values, dtype=object) if ctx.symbolic else np.asarray(e.dependent_values)
            ctx.ensure("raises-only-if-some-position-is-dependent", ctx.disj(deps))
            ctx.ensure("mask-shape", tuple(mask.shape) == (2,))
            if tuple(mask.shape) == (2,):
                for k in range(2):
                    mk = mask[k]
                    ctx.ensure("mask[k]<=>position-k-dependent", ctx.iff(ctx.conj([mk]) if ctx.symbolic else bool(mk), deps[k]))
            return
        ctx.ensure("returns-only-if-no-position-is-dependent", ctx.neg(ctx.disj(deps)))


_mask_case("join.PP.2d.cc", 2, [("P", True), ("P", True)], "join")
_mask_case("join.PP.3d.cs", 3, [("P", True), ("P", False)], "join")
_mask_case("meet.EE.3d.cc", 3, [("E", True), ("E", True)], "meet")
_mask_case("join.PPP.3d.ccc", 3, [("P", True), ("P", True), ("P", True)], "join")


def ll_collection_mixed(ctx, name):
    """a collection of line pairs: pair 0 is coplanar by construction, pair 1 is arbitrary.  meet/join must raise
    NotCoplanar as soon as ONE pair is skew (no silently wrong point/plane at the skew position)"""
    geometer, ex = _g()
    a, b, c, p, q, r, s_ = (ctx.vec(k, 4) for k in ("a", "b", "c", "p", "q", "r", "s"))
    for rows in ([a, b], [a, c], [p, q], [r, s_]):
        ctx.assume(ctx.neg(dependent(ctx, rows)))
    mk = lambda x, y: np.array(geo.line3_from_points(tolist(x), tolist(y)), dtype=object if ctx.symbolic else None)
    L = geometer.LineCollection(np.stack([mk(a, b), mk(p, q)]))
    M = geometer.LineCollection(np.stack([mk(a, c), mk(r, s_)]))
    skew1 = ctx.neg(ctx.zero(geo.det([tolist(v) for v in (p, q, r, s_)])))
    op = getattr(geometer, name)
    try:
        with ctx.stubs():
            op(L, M, _check_dependence=False)
    except ex.NotCoplanar:
        ctx.ensure("%s:raises-NotCoplanar-only-if-some-pair-is-skew" % name, skew1)
        return
    ctx.ensure("%s:returns-only-if-every-pair-is-coplanar" % name, ctx.neg(skew1))


for _w in ("meet", "join"):
    case("C02", "LL.collection.mixed.3d.%s" % _w, names("a", 4) + names("b", 4) + names("c", 4) + names("p", 4) + names("q", 4) + names("r", 4) + names("s", 4), mode="field",
         functions=FUN, max_paths=1200, explore_time=600, assumptions=["collection shape (2,) enumerated"])(lambda ctx, _w=_w: ll_collection_mixed(ctx, _w))


# ------------------------------------------------------------------------------------------------ aliasing
@case("C02", "alias.same.object", names("p", 3) + names("q", 4) + names("r", 4) + names("e", 4), mode="field", functions=FUN, max_paths=200,
      assumptions=["the SAME Python object passed twice (tensor diagrams identify nodes by identity); all kinds, 2D and 3D"])
def alias_same_object(ctx):
    """coincident arguments given as one and the same object are linearly dependent: LinearDependenceError, nothing else"""
    geometer, ex = _g()
    p, q, r, e = ctx.vec("p", 3), ctx.vec("q", 4), ctx.vec("r", 4), ctx.vec("e", 4)
    ctx.assume(ctx.neg(ctx.minors_zero(q, r)))
    for v in (p, q, e):
        ctx.assume(ctx.neg(ctx.all_zero(v)))
    with ctx.stubs():
        P2, L2 = geometer.Point(p), geometer.Line(p)
        P3, E3 = geometer.Point(q), geometer.Plane(e)
        L3 = geometer.Line(geometer.Point(q), geometer.Point(r))
        thunks = [("join(P,P).2d", lambda: geometer.join(P2, P2)), ("meet(l,l).2d", lambda: geometer.meet(L2, L2)), ("l.meet(l).2d", lambda: L2.meet(L2)),
                  ("join(P,P).3d", lambda: geometer.join(P3, P3)), ("join(P,P,R).3d", lambda: geometer.join(P3, P3, geometer.Point(r))),
                  ("meet(E,E).3d", lambda: geometer.meet(E3, E3)), ("join(L,L).3d", lambda: geometer.join(L3, L3)), ("meet(L,L).3d", lambda: geometer.meet(L3, L3)),
                  ("P.join(P).3d", lambda: P3.join(P3)),
                  # the same object at NON-adjacent positions
                  ("join(P,R,P).3d", lambda: geometer.join(P3, geometer.Point(r), P3)), ("P.join(R,P).3d", lambda: P3.join(geometer.Point(r), P3)),
                  ("meet(E,F,E).3d", lambda: geometer.meet(E3, geometer.Plane(r), E3)), ("Plane(P,R,P)", lambda: geometer.Plane(P3, geometer.Point(r), P3)),
                  ("Line(P,P).2d", lambda: geometer.Line(P2, P2))]
        for name, th in thunks:
            try:
                th()
                got = "returned"
            except ex.LinearDependenceError:
                got = "LinearDependenceError"
            except ex.GeometryException as err:
                got = type(err).__name__
            ctx.ensure("%s:raises-LinearDependenceError" % name, got == "LinearDependenceError", got=got)
        try:
            r = L3.is_coplanar(L3)
            ctx.ensure("L.is_coplanar(L):true", ctx.conj([r]) if ctx.symbolic else bool(r))
        except ex.GeometryException as err:
            ctx.ensure("L.is_coplanar(L):true", False, got=type(err).__name__)


@case("C02", "dependence.magnitudes.lattice", [], kind="bounded", functions=FUN,
      bound="2D: near-parallel lines through lattice points (n, n+1), (n+1, n+2), n in 1..1000 (cross product 1 before normalisation), all built by join and then met; 3D: random "
            "quadruples (80 skew, 80 coplanar) of points in {-20..20}^3 with exact integer determinant: |det| in 1..3 -> NotCoplanar, det = 0 -> a common point; collections mixing coordinates ~1 with ~1e5 (2D) / ~1e3 (3D)")
def dependence_magnitudes(ctx):
    import random as _random

    import geometer as g
    from geometer import exceptions as ex

    rnd = _random.Random(11)
    # 2D: distinct lines whose raw cross product is tiny compared with the coordinates must still meet, and the meet is the exact common point
    for n in list(range(1, 40)) + [64, 100, 101, 127, 128, 129, 255, 256, 500, 777, 1000]:
        for o in [(0, 0), (3, -2), (-7, 5)]:
            O = g.Point(*o)
            l1, l2 = g.join(O, g.Point(o[0] + n, o[1] - (n + 1))), g.join(O, g.Point(o[0] + n + 1, o[1] - (n + 2)))
            w = dict(origin=o, n=n)
            try:
                x = g.meet(l1, l2)
                ok = bool(x == O)
            except ex.GeometryException as e:
                ok = False
                w["exception"] = type(e).__name__
            ctx.ensure("2d:near-parallel-lines-through-a-lattice-point-meet-there", ok, witness=w)
            try:
                g.meet(l1, g.join(O, g.Point(o[0] + 2 * n, o[1] - 2 * (n + 1))))
                ok = False
            except ex.LinearDependenceError:
                ok = True
            except ex.GeometryException as e:
                ok = False
                w["exception"] = type(e).__name__
            ctx.ensure("2d:the-same-line-through-other-points-raises", ok, witness=w)
    # 3D: skew with the smallest possible determinants / exactly coplanar
    found = {"skew": 0, "coplanar": 0}
    for _ in range(200000):
        if found["skew"] >= 80 and found["coplanar"] >= 80:
            break
        P = [[rnd.randint(-20, 20) for _ in range(3)] + [1] for _ in range(4)]
        d = round(float(np.linalg.det(np.array(P, dtype=float))))
        M = [[int(v) for v in r] for r in P]
        # exact integer determinant (Laplace)
        def det3(m):
            return m[0][0] * (m[1][1] * m[2][2] - m[1][2] * m[2][1]) - m[0][1] * (m[1][0] * m[2][2] - m[1][2] * m[2][0]) + m[0][2] * (m[1][0] * m[2][1] - m[1][1] * m[2][0])
        d = sum((-1) ** j * M[0][j] * det3([[r[k] for k in range(4) if k != j] for r in M[1:]]) for j in range(4))
        if P[0] == P[1] or P[2] == P[3]:
            continue
        kind = "skew" if 1 <= abs(d) <= 3 else ("coplanar" if d == 0 else None)
        if kind is None or found[kind] >= 80:
            continue
        A, B, C, D = (g.Point(*p[:3]) for p in P)
        l1, l2 = g.join(A, B), g.join(C, D)
        if kind == "coplanar" and (bool(l1.contains(C)) and bool(l1.contains(D))):
            continue
        found[kind] += 1
        w = dict(points=[p[:3] for p in P], det=d)
        for op in ("meet", "join"):
            try:
                r = getattr(g, op)(l1, l2)
                got = "returned"
            except ex.NotCoplanar:
                got = "NotCoplanar"
            except ex.GeometryException as e:
                got = type(e).__name__
            if kind == "skew":
                ctx.ensure("3d:skew-lines-with-determinant-1..3-raise-NotCoplanar", got == "NotCoplanar", witness=dict(w, op=op, got=got))
            else:
                ok = got == "returned" and (bool(l1.contains(r)) and bool(l2.contains(r)) if op == "meet" else all(bool(r.contains(x)) for x in (A, B, C, D)))
                ctx.ensure("3d:coplanar-lines-return-the-common-point/plane", ok, witness=dict(w, op=op, got=got))
    ctx.ensure("3d:lattice-populated", found["skew"] >= 80 and found["coplanar"] >= 80, witness=found)
    # collections mixing magnitudes: the zero test is per element
    for big in (1e3, 1e5):
        a = g.PointCollection([[1, 2, 1], [big, 3 * big + 1, 1], [0, 1, 1]])
        b = g.PointCollection([[3, 1, 1], [2 * big + 7, big, 1], [1, 1, 1]])
        for swap in (False, True):
            x, y = (b, a) if swap else (a, b)
            w = dict(big=big, swap=swap)
            try:
                r = g.join(x, y)
                ok = all(bool(r[k] == g.join(x[k], y[k])) for k in range(3))
            except ex.GeometryException as e:
                ok = False
                w["exception"] = type(e).__name__
            ctx.ensure("2d:collection-mixing-magnitudes-joins-element-by-element", ok, witness=w)
            try:
                r = g.meet(g.LineCollection(x.array), g.LineCollection(y.array))
                ok = all(bool(r[k] == g.meet(g.Line(x.array[k]), g.Line(y.array[k]))) for k in range(3))
            except ex.GeometryException as e:
                ok = False
                w["exception"] = type(e).__name__
            ctx.ensure("2d:collection-mixing-magnitudes-meets-element-by-element", ok, witness=w)
    for big in (1e2, 1e3):
        a = g.PointCollection([[1, 2, 0, 1], [big, 3 * big + 1, -big, 1]])
        b = g.PointCollection([[3, 1, 1, 1], [2 * big + 7, big, 5, 1]])
        c = g.PointCollection([[0, 0, 2, 1], [1, -big, 2 * big, 1]])
        w = dict(big=big)
        try:
            r = g.join(a, b, c)
            ok = all(bool(r[k] == g.join(a[k], b[k], c[k])) for k in range(2))
            r2 = g.meet(g.PlaneCollection(a.array), g.PlaneCollection(b.array), g.PlaneCollection(c.array))
            ok = ok and all(bool(r2[k] == g.meet(g.Plane(a.array[k]), g.Plane(b.array[k]), g.Plane(c.array[k]))) for k in range(2))
        except ex.GeometryException as e:
            ok = False
            w["exception"] = type(e).__name__
        ctx.ensure("3d:collection-mixing-magnitudes-element-by-element", ok, witness=w)

"""C20: numeric kernels of geometer.utils.math against exact linear algebra, every size/batch branch.

Batches are given as  M_k = A + k*B  (k = 0..N-1) with fully symbolic A, B: every position of the batch
then ranges over all matrices, and all positions carry different values (cross-batch index slips show).
"""
from __future__ import annotations

import itertools

import numpy as np

from gvc.harness import case, names
from contracts import geo
from contracts.geo import tolist


def _m():
    import geometer.utils.math as um

    return um


def _batch(ctx, n, N, const_b=False):
    A = ctx.arr("a", n, n)
    if const_b:
        B = np.array([[(i + 2 * j + 1) % 5 - 2 for j in range(n)] for i in range(n)])
    else:
        B = ctx.arr("b", n, n)
    return np.stack([A + k * B for k in range(N)], axis=0), A, B


def _eq_all(ctx, X, Y):
    X, Y = geo.tolist(X), geo.tolist(Y)

    def flat(x):
        if isinstance(x, list):
            out = []
            for u in x:
                out += flat(u)
            return out
        return [x]

    fx, fy = flat(X), flat(Y)
    assert len(fx) == len(fy), (len(fx), len(fy))
    if ctx.symbolic:
        return ctx.conj([ctx.zero(x - y) for x, y in zip(fx, fy)])
    # numeric replay: one scale for the whole array (entries that should vanish carry rounding errors of the large ones)
    scale = 1e-9 + max([abs(complex(v)) for v in fx + fy] + [0.0])
    return ctx.conj([ctx.zero(x - y, scale=scale) for x, y in zip(fx, fy)])


# --------------------------------------------------------------------------------------------- det


def _det_case(n, N, tag):
    syms = names("a", n, n) + (names("b", n, n) if N else [])

    @case("C20", "det.n%d.%s" % (n, tag), syms, mode="field", functions=["geometer.utils.math.det"],
          assumptions=["np.linalg.det (LAPACK) assumed to return the Leibniz determinant"] if (n > 3 or (n == 3 and N < 64)) else [])
    def _(ctx):
        um = _m()
        if N:
            M, A, B = _batch(ctx, n, N)
            d = um.det(M)
            ctx.ensure("shape", tuple(np.shape(d)) == (N,))
            for k in range(N):
                ctx.ensure("det==leibniz", _eq_all(ctx, d[k], geo.det(tolist(M[k]))))
        else:
            A = ctx.arr("a", n, n)
            d = um.det(A)
            ctx.ensure("det==leibniz", _eq_all(ctx, d, geo.det(tolist(A))))
            # a 2-dimensional batch of shape (2, 2) built from A
            M = np.stack([np.stack([A, 2 * A]), np.stack([A.T, A + 1])])
            d = um.det(M)
            ctx.ensure("shape-2d-batch", tuple(np.shape(d)) == (2, 2))
            for i in range(2):
                for j in range(2):
                    ctx.ensure("det==leibniz-2d-batch", _eq_all(ctx, d[i, j], geo.det(tolist(M[i, j]))))


_det_case(2, 0, "single")
_det_case(2, 64, "batch64")
_det_case(3, 0, "single")
_det_case(3, 63, "batch63")
_det_case(3, 64, "batch64")
_det_case(4, 0, "single")


# --------------------------------------------------------------------------------------------- adjugate


def _adj_clauses(ctx, M, adj, tag=""):
    n = len(M)
    M, adj = tolist(M), tolist(adj)
    d = geo.det(M)
    I = [[d if i == j else 0 for j in range(n)] for i in range(n)]
    ctx.ensure("A.adj(A)==det(A).I" + tag, _eq_all(ctx, geo.matmul(M, adj), I))
    ctx.ensure("adj(A).A==det(A).I" + tag, _eq_all(ctx, geo.matmul(adj, M), I))
    ctx.ensure("adj==cofactor-definition" + tag, _eq_all(ctx, adj, geo.adjugate(M)))


def _adj_case(n, N, tag):
    syms = names("a", n, n) + (names("b", n, n) if N else [])

    @case("C20", "adjugate.n%d.%s" % (n, tag), syms, mode="field", functions=["geometer.utils.math.adjugate", "geometer.utils.math._minor_indices", "geometer.utils.math.det"],
          timeout=120)
    def _(ctx):
        um = _m()
        if N:
            M, A, B = _batch(ctx, n, N)
            adj = um.adjugate(M)
            ctx.ensure("shape", tuple(np.shape(adj)) == (N, n, n))
            for k in (range(N) if n <= 3 else (0, 1, N // 2, N - 1)):
                _adj_clauses(ctx, M[k], adj[k], "")
        else:
            A = ctx.arr("a", n, n)
            adj = um.adjugate(A)
            ctx.ensure("shape", tuple(np.shape(adj)) == (n, n))
            _adj_clauses(ctx, A, adj)
            if n <= 3:
                M = np.stack([A, A.T + 1])
                adj = um.adjugate(M)
                for k in range(2):
                    _adj_clauses(ctx, M[k], adj[k], "-batch2")


_adj_case(2, 0, "single")
_adj_case(2, 64, "batch64")
_adj_case(3, 0, "single")
_adj_case(3, 64, "batch64")
_adj_case(4, 0, "single")
_adj_case(4, 64, "batch64")
_adj_case(5, 0, "single")


# --------------------------------------------------------------------------------------------- inv


def _inv_case(n, N, tag):
    syms = names("a", n, n)

    @case("C20", "inv.n%d.%s" % (n, tag), syms, mode="field", functions=["geometer.utils.math.inv", "geometer.utils.math.adjugate", "geometer.utils.math.det"],
          timeout=120, assumptions=[] if N >= 64 else ["np.linalg.inv (LAPACK) assumed to return adj(A)/det(A) and to raise LinAlgError for singular input"])
    def _(ctx):
        um = _m()
        if N:
            M, A, B = _batch(ctx, n, N, const_b=True)
            ks = list(range(N))
        else:
            A = ctx.arr("a", n, n)
            M = A[None]
            ks = [0]
        singular = ctx.disj([ctx.zero(geo.det(tolist(M[k]))) for k in ks])
        try:
            W = um.inv(M if N else A)
        except np.linalg.LinAlgError:
            ctx.ensure("raises-LinAlgError-only-if-singular", singular)
            return
        ctx.ensure("returns-only-if-regular", ctx.neg(singular))
        if not N:
            W = W[None]
        I = geo.identity(n)
        for k in (ks if len(ks) < 8 else [0, 1, 2, 31, 62, 63]):
            ctx.ensure("inv(A).A==I", _eq_all(ctx, geo.matmul(tolist(W[k]), tolist(M[k])), I))
            ctx.ensure("A.inv(A)==I", _eq_all(ctx, geo.matmul(tolist(M[k]), tolist(W[k])), I))


_inv_case(2, 0, "single")
_inv_case(3, 0, "single")
_inv_case(2, 64, "batch64")
_inv_case(3, 64, "batch64")
_inv_case(4, 64, "batch64")


# --------------------------------------------------------------------------------------------- is_multiple


def _ism_case(n, tag, axis, shape):
    syms = names("a", *shape) + names("b", *shape)

    @case("C20", "is_multiple.%s" % tag, syms, mode="field", functions=["geometer.utils.math.is_multiple"], max_paths=2000,
          explore_time=600, also=("C03",), share=True)
    def _(ctx):
        um = _m()
        a, b = ctx.arr("a", *shape), ctx.arr("b", *shape)
        r = um.is_multiple(a, b, axis=axis, rtol=1e-15, atol=1e-8)
        # spec: along the compared axes all 2x2 minors of (a, b) vanish
        A, B = np.asarray(a), np.asarray(b)
        if axis is None:
            lanes = [((), A.reshape(-1), B.reshape(-1))]
            rs = np.empty((), dtype=object)
            rs[()] = r
        else:
            ax = (axis,) if isinstance(axis, int) else tuple(axis)
            ax = tuple(x % A.ndim for x in ax)
            keep = [i for i in range(A.ndim) if i not in ax]
            At = A.transpose(keep + list(ax)).reshape(tuple(A.shape[i] for i in keep) + (-1,))
            Bt = B.transpose(keep + list(ax)).reshape(At.shape)
            lanes = [(idx, At[idx], Bt[idx]) for idx in np.ndindex(*At.shape[:-1])]
            rs = np.asarray(r, dtype=object) if ctx.symbolic else np.asarray(r)
            ctx.ensure("shape", tuple(rs.shape) == tuple(At.shape[:-1]))
        for idx, x, y in lanes:
            spec = ctx.minors_zero(list(x), list(y))
            got = rs[idx]
            ctx.ensure("is_multiple<=>all-minors-vanish", ctx.iff(ctx.conj([got]), spec))


_ism_case(2, "n2", None, (2,))
_ism_case(3, "n3", -1, (3,))
_ism_case(3, "n3.axis-tuple1", (0,), (3,))
_ism_case(4, "n4", 0, (4,))
_ism_case(4, "2x2.axes", (-2, -1), (2, 2))
_ism_case(4, "2x2.axis-1", -1, (2, 2))


# --------------------------------------------------------------------------------------------- hat_matrix, products


@case("C20", "hat_matrix.3", names("x", 3) + names("v", 3), mode="field", functions=["geometer.utils.math.hat_matrix"])
def hat3(ctx):
    um = _m()
    x, v = ctx.vec("x", 3), ctx.vec("v", 3)
    H = um.hat_matrix(x)
    a, b, c = tolist(x)
    ctx.ensure("documented-layout", _eq_all(ctx, H, [[0, c, -b], [-c, 0, a], [b, -a, 0]]))
    ctx.ensure("hat(x).v==cross(v,x)", _eq_all(ctx, geo.matvec(tolist(H), tolist(v)), geo.cross(tolist(v), tolist(x))))
    H2 = um.hat_matrix(a, b, c)
    ctx.ensure("scalar-arguments", _eq_all(ctx, H2, H))
    Hb = um.hat_matrix(np.stack([x, v]))
    ctx.ensure("batch", ctx.conj([_eq_all(ctx, Hb[0], H), _eq_all(ctx, Hb[1], um.hat_matrix(v))]))


@case("C20", "hat_matrix.6", names("x", 6), mode="field", functions=["geometer.utils.math.hat_matrix"])
def hat6(ctx):
    um = _m()
    x = ctx.vec("x", 6)
    H = tolist(um.hat_matrix(x))
    ctx.ensure("shape", len(H) == 4 and len(H[0]) == 4)
    ctx.ensure("antisymmetric", ctx.conj([ctx.zero(H[i][j] + H[j][i]) for i in range(4) for j in range(4)]))
    pos = [(2, 3), (1, 3), (1, 2), (0, 3), (0, 2), (0, 1)]  # reversed upper-triangular order
    ctx.ensure("upper-triangle-in-reversed-order", ctx.conj([ctx.zero(H[i][j] - tolist(x)[k]) for k, (i, j) in enumerate(pos)]))


@case("C20", "products", names("a", 2, 3) + names("b", 3, 2) + names("u", 3) + names("w", 2), mode="real",
      functions=["geometer.utils.math.matmul", "geometer.utils.math.matvec", "geometer.utils.math.outer"])
def products(ctx):
    um = _m()
    A, B, u, w = ctx.arr("a", 2, 3), ctx.arr("b", 3, 2), ctx.vec("u", 3), ctx.vec("w", 2)
    a, b = tolist(A), tolist(B)
    ctx.ensure("matmul", _eq_all(ctx, um.matmul(A, B), geo.matmul(a, b)))
    ctx.ensure("matmul-transpose_a", _eq_all(ctx, um.matmul(A, A, transpose_a=True), geo.matmul(geo.transpose(a), a)))
    ctx.ensure("matmul-transpose_b", _eq_all(ctx, um.matmul(A, A, transpose_b=True), geo.matmul(a, geo.transpose(a))))
    ctx.ensure("matmul-adjoint_b-real", _eq_all(ctx, um.matmul(A, A, adjoint_b=True), geo.matmul(a, geo.transpose(a))))
    ctx.ensure("matvec", _eq_all(ctx, um.matvec(A, u), geo.matvec(a, tolist(u))))
    ctx.ensure("matvec-transpose_a", _eq_all(ctx, um.matvec(A, w, transpose_a=True), geo.matvec(geo.transpose(a), tolist(w))))
    ctx.ensure("outer", _eq_all(ctx, um.outer(u, w), [[x * y for y in tolist(w)] for x in tolist(u)]))
    ctx.ensure("outer-batch", _eq_all(ctx, um.outer(A, A)[1], [[x * y for y in a[1]] for x in a[1]]))


# --------------------------------------------------------------------------------------------- roots


@case("C20", "roots.linear", ["c", "d"], mode="field", functions=["geometer.utils.math.roots"])
def roots_linear(ctx):
    um = _m()
    c, d = ctx.sym("c"), ctx.sym("d")
    ctx.assume(ctx.neg(ctx.zero(c)))
    r = um.roots([c, d])
    ctx.ensure("one-root", len(r) == 1)
    ctx.ensure("p(x)==0", ctx.zero(c * r[0] + d))
    r3 = um.roots([0, 0, c, d])
    ctx.ensure("degenerate-cubic-is-linear", ctx.conj([len(r3) == 1, ctx.zero(c * r3[0] + d)]))


@case("C20", "roots.quadratic", ["b", "c", "d"], mode="field", functions=["geometer.utils.math.roots"])
def roots_quadratic(ctx):
    um = _m()
    b, c, d = ctx.sym("b"), ctx.sym("c"), ctx.sym("d")
    ctx.assume(ctx.neg(ctx.zero(b)))
    for tag, p in (("", [b, c, d]), ("-as-cubic", [0, b, c, d])):
        r = um.roots(p)
        ctx.ensure("two-roots" + tag, len(r) == 2)
        ctx.ensure("p(x1)==0" + tag, ctx.zero(b * r[0] * r[0] + c * r[0] + d, scale=None if ctx.symbolic else abs(b * r[0] * r[0]) + abs(c * r[0]) + abs(d)))
        ctx.ensure("p(x2)==0" + tag, ctx.zero(b * r[1] * r[1] + c * r[1] + d, scale=None if ctx.symbolic else abs(b * r[1] * r[1]) + abs(c * r[1]) + abs(d)))
        ctx.ensure("vieta-sum" + tag, ctx.zero(b * (r[0] + r[1]) + c, scale=None if ctx.symbolic else abs(b * r[0]) + abs(b * r[1]) + abs(c)))
        ctx.ensure("vieta-product" + tag, ctx.zero(b * r[0] * r[1] - d, scale=None if ctx.symbolic else abs(b * r[0] * r[1]) + abs(d)))


@case("C20", "roots.cubic.triple", ["a", "b", "c", "d"], mode="real", functions=["geometer.utils.math.roots"], timeout=60)
def roots_triple(ctx):
    """a (x - r)**3: the only root r is returned (branch f == g == h == 0)"""
    um = _m()
    a, r = ctx.sym("a"), ctx.sym("b")
    ctx.assume(ctx.neg(ctx.zero(a)))
    p = [a, -3 * a * r, 3 * a * r * r, -a * r * r * r]
    x = um.roots(p)
    ctx.ensure("triple-root-returned", ctx.conj([len(x) >= 1] + [ctx.zero(v - r, scale=None if ctx.symbolic else 1 + abs(r)) for v in x]))


@case("C20", "kernels.numeric.lattice", [], kind="bounded", functions=["geometer.utils.math.roots", "geometer.utils.math.inv", "geometer.utils.math.det", "geometer.utils.math.adjugate",
                                                                       "geometer.utils.math.null_space", "geometer.utils.math.orth"],
      bound="cubics a(x-r1)(x-r2)(x-r3) with roots in {-2,-1,0,1,3/2,3} (all multiplicity patterns) and complex pairs, a in {1,-2,1/2}; inv/det/adjugate on batches of 63 and 64 "
            "matrices of size 2-4 incl. well-conditioned matrices with |det| ~ 1e-9; null_space/orth of integer matrices of rank 1..3")
def kernels_numeric(ctx):
    import geometer.utils.math as um

    rs = [-2, -1, 0, 1, 1.5, 3]
    for a in (1, -2, 0.5):
        for r1, r2, r3 in itertools.combinations_with_replacement(rs, 3):
            p = np.poly([r1, r2, r3]) * a
            got = np.atleast_1d(um.roots(list(p)))
            ok = all(min(abs(g - r) for g in got) < 1e-6 for r in (r1, r2, r3)) and all(abs(np.polyval(p, g)) < 1e-6 * (1 + abs(g)) ** 3 for g in got)
            ctx.ensure("cubic:all-roots-returned", ok, witness=dict(coefficients=list(p), roots=(r1, r2, r3), got=[complex(g) for g in got]))
        for re, im, r in [(0, 1, 1), (1, 2, -1), (-1, 0.5, 2), (2, 3, 0)]:
            p = np.real(np.poly([complex(re, im), complex(re, -im), r])) * a
            got = np.atleast_1d(um.roots(list(p)))
            ok = all(min(abs(g - z) for g in got) < 1e-6 for z in (complex(re, im), complex(re, -im), r))
            ctx.ensure("cubic:complex-pair", ok, witness=dict(coefficients=list(p), got=[complex(g) for g in got]))
    rng = np.random.default_rng(5)
    for n in (2, 3, 4):
        for N in (63, 64, 100):
            base = rng.integers(-3, 4, size=(N, n, n)).astype(float) + np.eye(n) * 13  # strictly diagonally dominant: regular
            for scale in (1.0, 0.002, 1e-5 if n == 2 else 0.01):
                A = base * scale
                try:
                    W = um.inv(A)
                    ok = np.allclose(np.matmul(W, A), np.eye(n), atol=1e-6)
                    got = "ok" if ok else "wrong"
                except np.linalg.LinAlgError as e:
                    ok, got = False, "LinAlgError: %s" % e
                ctx.ensure("inv:well-conditioned-batches-both-sides-of-64", ok, witness=dict(n=n, batch=N, scale=scale, got=got))
                d = um.det(A)
                ctx.ensure("det:agrees-with-numpy", np.allclose(d, np.linalg.det(A), rtol=1e-7, atol=1e-300), witness=dict(n=n, batch=N, scale=scale))
                adj = um.adjugate(A)
                ctx.ensure("adjugate:A.adj(A)==det.I", np.allclose(np.matmul(A, adj), d[:, None, None] * np.eye(n), rtol=1e-7, atol=1e-9 * float(np.abs(A).max()) ** n), witness=dict(n=n, batch=N, scale=scale))
    mats = [np.array([[1, 2, 3], [2, 4, 6]]), np.array([[1, 0, 0, 1], [0, 1, 0, 1]]), np.array([[1, 2, 3, 4]]), np.array([[1, 0, 2], [0, 1, 1], [1, 1, 3]]),
            # trivial kernel (full column rank: invertible, tall) and the zero matrix (full kernel), real and complex, also as a batch
            np.array([[2, 1], [1, 3]]), np.array([[1, 0, 2], [0, 1, 1], [1, 1, 4]]), np.array([[1, 0], [0, 1], [2, 3]]), np.array([[1.0 + 1j, 0], [0, 2j], [1, 1]]), np.zeros((2, 3)),
            np.array([[1, 2, 0, 0, 1], [0, 1, 1j, 0, 2]])]
    for Mx in mats:
        rk = np.linalg.matrix_rank(Mx)
        Q = um.null_space(Mx)
        ctx.ensure("null_space:orthonormal-basis-of-the-kernel", Q.shape == (Mx.shape[1], Mx.shape[1] - rk) and np.allclose(Mx @ Q, 0, atol=1e-9) and np.allclose(Q.conj().T @ Q, np.eye(Q.shape[1]), atol=1e-9),
                   witness=dict(matrix=str(Mx.tolist()), got=str(Q.tolist())[:200]))
        Qd = um.null_space(Mx, Mx.shape[1] - rk)
        ctx.ensure("null_space(dim):orthonormal-basis-of-the-kernel", np.allclose(Mx @ Qd, 0, atol=1e-9) and np.allclose(Qd.conj().T @ Qd, np.eye(Qd.shape[1]), atol=1e-9), witness=dict(matrix=str(Mx.tolist())))
        if rk == 0:
            continue
        U = um.orth(Mx)
        ctx.ensure("orth:orthonormal-basis-of-the-range", U.shape == (Mx.shape[0], rk) and np.allclose(U.conj().T @ U, np.eye(rk), atol=1e-9) and np.linalg.matrix_rank(np.hstack([U, Mx])) == rk,
                   witness=dict(matrix=str(Mx.tolist()), got=str(U.tolist())[:200]))

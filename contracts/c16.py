"""C16: membership in segments, triangles and polygons (real mode: all coordinates real, order atoms
discharged by z3/cvc5)."""
from __future__ import annotations

import itertools

import numpy as np

from gvc.harness import case, names
from contracts import geo
from contracts.geo import dot, tolist

FSEG = ["geometer.shapes.SegmentTensor.contains", "geometer.shapes.SegmentTensor.__init__", "geometer.point.PointLikeTensor._normalize_array",
        "geometer.point.SubspaceTensor.contains", "geometer.point.PointTensor._matrix_transform"]


def _g():
    import geometer
    import geometer.shapes as gs

    return geometer, gs


def _b(ctx, x):
    """truth value of a contains() result"""
    return ctx.conj([x]) if ctx.symbolic else bool(x)


def _segment_case(dim):
    n = dim + 1

    @case("C16", "segment.contains.online.%dd" % dim, names("a", n) + names("b", n) + ["al", "be"], mode="real", functions=FSEG, timeout=120 if dim == 2 else 900,
          max_paths=64, also=("C03",), share=True, tier="quick" if dim == 2 else "thorough")
    def _(ctx):
        """p = al*a + be*b on the line of a finite segment ab (arbitrary homogeneous representatives):
        contained  <=>  the affine parameter t = be*bz/(al*az+be*bz) lies in [0,1]"""
        geometer, gs = _g()
        a, b = ctx.vec("a", n), ctx.vec("b", n)
        al, be = ctx.sym("al"), ctx.sym("be")
        az, bz = a[-1], b[-1]
        ctx.assume(ctx.neg(ctx.zero(az)))
        ctx.assume(ctx.neg(ctx.zero(bz)))
        ctx.assume(ctx.neg(ctx.minors_zero(a, b)))  # a != b
        p = al * a + be * b
        ctx.assume(ctx.neg(ctx.conj([ctx.zero(al), ctx.zero(be)])))
        with ctx.stubs():
            seg = gs.Segment(geometer.Point(a), geometer.Point(b))
            r = seg.contains(geometer.Point(p))
        u, v = al * az, be * bz
        if ctx.symbolic:
            spec = ctx.conj([u * v >= 0, ctx.neg(ctx.zero(u + v))])
        else:
            spec = (u * v >= -1e-12) and abs(u + v) > 1e-9
        ctx.ensure("contains<=>0<=t<=1", ctx.iff(_b(ctx, r), spec))

    @case("C16", "segment.contains.offline.%dd" % dim, names("a", n) + names("b", n) + names("p", n), mode="real", functions=FSEG, timeout=120 if dim == 2 else 900,
          max_paths=64, tier="quick" if dim == 2 else "thorough")
    def _(ctx):
        geometer, gs = _g()
        a, b, p = ctx.vec("a", n), ctx.vec("b", n), ctx.vec("p", n)
        ctx.assume(ctx.neg(ctx.zero(a[-1])))
        ctx.assume(ctx.neg(ctx.zero(b[-1])))
        ctx.assume(ctx.neg(ctx.minors_zero(a, b)))
        # p not on the line: a, b, p linearly independent
        ctx.assume(ctx.neg(ctx.conj([ctx.zero(m) for m in geo.maximal_minors([tolist(a), tolist(b), tolist(p)])])))
        with ctx.stubs():
            seg = gs.Segment(geometer.Point(a), geometer.Point(b))
            r = seg.contains(geometer.Point(p))
        ctx.ensure("off-the-line=>not-contained", ctx.neg(_b(ctx, r)))


_segment_case(2)
_segment_case(3)


@case("C16", "ray.contains.2d", names("a", 3) + names("d", 2) + ["al", "be"], mode="real", functions=FSEG, timeout=120, max_paths=64)
def ray_contains(ctx):
    """segment with end point at infinity = ray from a in direction d:  p = al*a + be*(d,0) contained <=> t = be/(al*az) >= 0"""
    geometer, gs = _g()
    a, d = ctx.vec("a", 3), ctx.vec("d", 2)
    al, be = ctx.sym("al"), ctx.sym("be")
    az = a[-1]
    ctx.assume(ctx.neg(ctx.zero(az)))
    ctx.assume(ctx.neg(ctx.conj([ctx.zero(d[0]), ctx.zero(d[1])])))
    binf = np.append(d, [0])
    p = al * a + be * binf
    ctx.assume(ctx.neg(ctx.zero(al)))  # p finite
    with ctx.stubs():
        seg = gs.Segment(geometer.Point(a), geometer.Point(binf))
        r = seg.contains(geometer.Point(p))
    u = al * az
    spec = (u * be >= 0) if ctx.symbolic else bool(u * be >= -1e-12)
    ctx.ensure("ray-contains<=>t>=0", ctx.iff(_b(ctx, r), spec))


FPOLY = ["geometer.shapes.PolygonTensor.contains", "geometer.shapes.PolygonTensor.edges", "geometer.shapes.SegmentTensor.contains",
         "geometer.shapes.SegmentCollection.expand_dims", "geometer.point._join_meet_duality"]


def _bary_spec(ctx, a, b, c, p):
    """closed triangle abc (affine coordinates, non-degenerate) contains p: all barycentric coordinates >= 0"""
    A = [list(a) + [1], list(b) + [1], list(c) + [1]]
    D = geo.det(A)
    l1 = geo.det([list(p) + [1], A[1], A[2]])
    l2 = geo.det([A[0], list(p) + [1], A[2]])
    l3 = geo.det([A[0], A[1], list(p) + [1]])
    if ctx.symbolic:
        return ctx.conj([l1 * D >= 0, l2 * D >= 0, l3 * D >= 0])
    return l1 * D >= -1e-9 and l2 * D >= -1e-9 and l3 * D >= -1e-9


@case("C16", "triangle.contains.2d", names("a", 2) + names("b", 2) + names("c", 2) + names("p", 2) + ["sa", "sb", "sc", "sp"], mode="real",
      functions=["geometer.shapes.Triangle.contains"], timeout=120, max_paths=200, also=("C03",), share=True)
def triangle_contains(ctx):
    """vertices and query point with arbitrary non-zero homogeneous scale factors"""
    geometer, gs = _g()
    a, b, c, p = (ctx.vec(k, 2) for k in "abcp")
    sa, sb, sc, sp = (ctx.sym(k) for k in ("sa", "sb", "sc", "sp"))
    for s_ in (sa, sb, sc, sp):
        ctx.assume(ctx.neg(ctx.zero(s_)))
    D = geo.det([list(a) + [1], list(b) + [1], list(c) + [1]])
    ctx.assume(ctx.neg(ctx.zero(D)))
    H = lambda v, s_: geometer.Point(np.append(v, [1]) * s_)
    with ctx.stubs():
        t = gs.Triangle(H(a, sa), H(b, sb), H(c, sc))
        r = t.contains(H(p, sp))
    ctx.ensure("contains<=>barycentric-coordinates>=0", ctx.iff(_b(ctx, r), _bary_spec(ctx, a, b, c, p)))
    with ctx.stubs():
        r = t.contains(geometer.Point(np.append(p, [0])))
    ctx.ensure("point-at-infinity-not-contained", ctx.neg(_b(ctx, r)))


@case("C16", "polygon3.contains.2d", names("a", 2) + names("b", 2) + names("c", 2) + names("p", 2), mode="real",
      functions=FPOLY, timeout=180, max_paths=600, explore_time=900, tier="experimental")
def polygon3_contains(ctx):
    """the generic even-odd algorithm on a 3-gon (Polygon, not Triangle)"""
    geometer, gs = _g()
    a, b, c, p = (ctx.vec(k, 2) for k in "abcp")
    D = geo.det([list(a) + [1], list(b) + [1], list(c) + [1]])
    ctx.assume(ctx.neg(ctx.zero(D)))
    with ctx.stubs():
        t = gs.Polygon(geometer.Point(*a), geometer.Point(*b), geometer.Point(*c))
        r = t.contains(geometer.Point(*p))
    ctx.ensure("contains<=>barycentric-coordinates>=0", ctx.iff(_b(ctx, r), _bary_spec(ctx, a, b, c, p)))


@case("C16", "lemma.segment.contract.2d", names("a", 3) + names("b", 3) + ["al", "be"], mode="real", functions=[], timeout=120)
def lemma_segment_contract(ctx):
    """ghost lemma (no geometer code): on the line, p = al*a + be*b, the general-point formula used by the opaque stub
    (contracts/stubs.py segment_contains_formula) is equivalent to the parametric contract proved for the real body in
    segment.contains.online.2d; off the line both are false (segment.contains.offline.2d).  Together: the stub contract
    holds for EVERY point p."""
    from contracts.stubs import segment_contains_formula

    a, b = ctx.vec("a", 3), ctx.vec("b", 3)
    al, be = ctx.sym("al"), ctx.sym("be")
    ctx.assume(ctx.neg(ctx.zero(a[2])))
    ctx.assume(ctx.neg(ctx.zero(b[2])))
    ctx.assume(ctx.neg(ctx.minors_zero(a, b)))
    p = [al * x + be * y for x, y in zip(tolist(a), tolist(b))]
    det, pz, n1, n2 = segment_contains_formula(None, tolist(a), tolist(b), p)
    u, v = al * a[2], be * b[2]
    Y = [b[0] * a[2] - a[0] * b[2], b[1] * a[2] - a[1] * b[2]]
    yy = Y[0] * Y[0] + Y[1] * Y[1]
    ctx.ensure("on-the-line", ctx.zero(det))
    ctx.ensure("n1==yy*az^2*v*(u+v)", ctx.zero(n1 - yy * a[2] * a[2] * v * (u + v)))
    ctx.ensure("n2==yy*az^2*u*(u+v)", ctx.zero(n2 - yy * a[2] * a[2] * u * (u + v)))
    ctx.ensure("pz==u+v", ctx.zero(pz - (u + v)))
    if ctx.symbolic:
        ctx.ensure("yy>0", yy > 0)
        lhs = ctx.conj([ctx.neg(ctx.zero(pz)), n1 >= 0, n2 >= 0])
        rhs = ctx.conj([u * v >= 0, ctx.neg(ctx.zero(u + v))])
        ctx.ensure("stub-formula<=>parametric-contract", ctx.iff(lhs, rhs))


def _pip_oracle(vs, p, eps=1e-9):
    """closed region of a simple polygon: boundary test, then even-odd crossing number (exact enough on half-integer lattices)"""
    n = len(vs)
    x, y = p
    for i in range(n):
        (x1, y1), (x2, y2) = vs[i], vs[(i + 1) % n]
        cr = (x2 - x1) * (y - y1) - (y2 - y1) * (x - x1)
        if abs(cr) < eps and min(x1, x2) - eps <= x <= max(x1, x2) + eps and min(y1, y2) - eps <= y <= max(y1, y2) + eps:
            return True
    inside = False
    for i in range(n):
        (x1, y1), (x2, y2) = vs[i], vs[(i + 1) % n]
        if (y1 > y) != (y2 > y):
            xi = x1 + (y - y1) * (x2 - x1) / (y2 - y1)
            if xi > x:
                inside = not inside
    return inside


@case("C16", "polygon.contains.lattice", [], kind="bounded", functions=["geometer.shapes.PolygonTensor.contains", "geometer.shapes.Triangle.contains"],
      bound="6 simple lattice polygons (convex, dart, L, triangle, quad, zig-zag) x 15x15 half-integer query grid (single points and one PointCollection per row), "
            "start-vertex rotations and reversal; 3D: the same polygons under 5 rigid motions with on-plane and off-plane queries, single and as collections")
def polygon_contains_lattice(ctx):
    import geometer as g
    from geometer.shapes import Polygon, Triangle
    from geometer.transformation import rotation, translation

    polys = [
        [(0, 0), (4, 0), (4, 4), (2, 1), (0, 4)],
        [(0, 0), (4, 0), (4, 3), (0, 3)],
        [(0, 0), (4, 0), (4, 2), (2, 2), (2, 4), (0, 4)],
        [(0, 0), (4, 1), (1, 4)],
        [(1, 0), (4, 2), (3, 4), (0, 3)],
        [(0, 0), (5, 0), (5, 4), (4, 4), (4, 1), (3, 3), (2, 1), (1, 3), (0, 1)],
    ]
    grid = [x / 2 for x in range(-2, 13)]
    for vs in polys:
        variants = [vs, vs[2:] + vs[:2], vs[::-1]]
        for vi, vv in enumerate(variants):
            P = Polygon(*[g.Point(*v) for v in vv])
            for y in grid:
                row = [(x, y) for x in grid]
                want = [_pip_oracle(vs, q) for q in row]
                got = P.contains(g.PointCollection([[x, yy, 1] for x, yy in row]))
                for q, w_, g_ in zip(row, want, got):
                    ctx.ensure("2d:collection-query==closed-region", bool(g_) == w_, witness=dict(polygon=vv, query=q, expected=w_, got=bool(g_)))
                if vi == 0:
                    for q, w_ in zip(row[::2], want[::2]):
                        ctx.ensure("2d:single-query==closed-region", bool(P.contains(g.Point(*q))) == w_, witness=dict(polygon=vv, query=q, expected=w_))
            if len(vv) == 3:
                T = Triangle(*[g.Point(*v) for v in vv])
                for q in [(x, y) for x in grid[::2] for y in grid[::2]]:
                    ctx.ensure("2d:triangle==closed-region", bool(T.contains(g.Point(*q))) == _pip_oracle(vs, q), witness=dict(triangle=vv, query=q))
        ctx.ensure("2d:point-at-infinity-not-contained", not bool(Polygon(*[g.Point(*v) for v in vs]).contains(g.Point([1, 1, 0]))), witness=dict(polygon=vs))
    motions = [translation(0, 0, 0), translation(1, 2, 3), rotation(0.7, axis=g.Point(1, 0, 0)), rotation(1.1, axis=g.Point(1, 2, 3)) * translation(0, 0, 2),
               translation(1, 1, 1) * rotation(-0.4, axis=g.Point(1, -1, 2)),
               # planes far from the origin (offset larger than every normal component) with the polygon crossing coordinate planes
               translation(5, -2, -2) * rotation(np.pi / 2, axis=g.Point(0, 1, 0)), translation(-1, 7, -1.5) * rotation(np.pi / 2, axis=g.Point(1, 0, 0)),
               translation(3, 3, -1) * rotation(0.9, axis=g.Point(1, 1, 0)), translation(-6, -6, -6) * rotation(2.2, axis=g.Point(1, 2, 2))]
    for vs in polys[:5]:
        for mi, t in enumerate(motions):
            P = t * Polygon(*[g.Point(x, y, 0) for x, y in vs])
            qs, want = [], []
            for (x, y) in [(1, 1), (3, 0.5), (2, 2), (-1, 1), (5, 5), (0.5, 3.5), (4, 4), (2, 1)]:
                for h in (0, 0, 0.5, -1):
                    qs.append((t * g.Point(x, y, h)).array)
                    want.append(_pip_oracle(vs, (x, y)) and h == 0)
            got = P.contains(g.PointCollection(np.array(qs)))
            for k in range(len(qs)):
                ctx.ensure("3d:collection-query==closed-region-in-the-plane", bool(got[k]) == want[k], witness=dict(polygon=vs, motion=mi, k=k, expected=want[k], got=bool(got[k])))
            for k in range(0, len(qs), 3):
                ctx.ensure("3d:single-query==closed-region-in-the-plane", bool(P.contains(g.Point(qs[k]))) == want[k], witness=dict(polygon=vs, motion=mi, k=k, expected=want[k]))

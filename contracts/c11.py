"""C11: cross ratio (closed form, symmetries, error paths) and harmonic sets."""
from __future__ import annotations

import itertools

import numpy as np

from gvc.harness import case, names
from contracts import geo
from contracts.geo import dot, tolist

FUN = ["geometer.operators.crossratio", "geometer.operators.is_coplanar", "geometer.base.ProjectiveTensor.__eq__", "geometer.utils.math.det"]


def _g():
    import geometer
    import geometer.operators as go

    return geometer, go


def _br(s, t, i, j):
    return s[i] * t[j] - s[j] * t[i]


def _closed_form_holds(ctx, cr, s, t, order=(0, 1, 2, 3)):
    """cr == [13][24] / ([14][23])  for the pencil parameters (s_i : t_i), cleared of denominators"""
    i, j, k, l = order
    num = _br(s, t, i, k) * _br(s, t, j, l)
    den = _br(s, t, i, l) * _br(s, t, j, k)
    return ctx.zero(cr * den - num, scale=None if ctx.symbolic else abs(cr * den) + abs(num))


def _params(ctx):
    s = [ctx.sym("s%d" % i) for i in range(4)]
    t = [ctx.sym("t%d" % i) for i in range(4)]
    return s, t


def _requires_generic(ctx, s, t):
    # the four elements are pairwise distinct (cross ratio defined and finite, non-zero denominators)
    for i, j in itertools.combinations(range(4), 2):
        ctx.assume(ctx.neg(ctx.zero(_br(s, t, i, j))))


def _points_case(n, tag, from_point=False):
    syms = names("a", n) + names("b", n) + ["s%d" % i for i in range(4)] + ["t%d" % i for i in range(4)] + (names("o", n) if from_point else [])

    @case("C11", "crossratio.points.%s" % tag, syms, mode="field", functions=FUN, timeout=120, max_paths=200, also=("C03",), share=True,
          tier="thorough" if n == 4 else "quick")
    def _(ctx):
        geometer, go = _g()
        A, B = ctx.vec("a", n), ctx.vec("b", n)
        s, t = _params(ctx)
        _requires_generic(ctx, s, t)
        ctx.assume(ctx.neg(ctx.minors_zero(A, B)))
        P = [geometer.Point(s[i] * A + t[i] * B) for i in range(4)]
        if n > 2 and not from_point:
            # requires (complex points only): the line is not isotropic, i.e. the Gram determinant of the first two
            # points does not vanish.  For real points this follows from independence (lemma C11/lemma.gram.real).
            p0, p1 = tolist(P[0].array), tolist(P[1].array)
            ctx.assume(ctx.neg(ctx.zero(dot(p0, p0) * dot(p1, p1) - dot(p0, p1) * dot(p0, p1))))
        with ctx.stubs():
            if from_point:
                o = ctx.vec("o", n)
                ctx.assume(ctx.neg(ctx.zero(geo.det([tolist(o), tolist(A), tolist(B)]))))
                # points p_i = o + (s_i A + t_i B) seen from o: same cross ratio
                P = [geometer.Point(s[i] * A + t[i] * B + (i + 1) * o) for i in range(4)]
                cr = go.crossratio(*P, from_point=geometer.Point(o))
            else:
                cr = go.crossratio(*P)
        ctx.ensure("value==closed-form", _closed_form_holds(ctx, cr, s, t))
        if not from_point:
            # the symmetries, on the real function (arguments permuted)
            with ctx.stubs():
                c1 = go.crossratio(P[1], P[0], P[3], P[2])
                c2 = go.crossratio(P[2], P[3], P[0], P[1])
                c3 = go.crossratio(P[0], P[1], P[3], P[2])
                c4 = go.crossratio(P[0], P[2], P[1], P[3])
            sc = None if ctx.symbolic else 1 + abs(cr)
            ctx.ensure("cr(a,b,c,d)==cr(b,a,d,c)", ctx.zero(cr - c1, scale=sc))
            ctx.ensure("cr(a,b,c,d)==cr(c,d,a,b)", ctx.zero(cr - c2, scale=sc))
            ctx.ensure("cr(a,b,c,d)==1/cr(a,b,d,c)", ctx.zero(cr * c3 - 1, scale=sc))
            ctx.ensure("cr(a,b,c,d)==1-cr(a,c,b,d)", ctx.zero(cr + c4 - 1, scale=sc))


_points_case(2, "1d")
_points_case(3, "2d")
_points_case(4, "3d")
_points_case(3, "2d.from_point", from_point=True)


@case("C11", "crossratio.points.a==b", names("a", 3) + names("c", 3) + names("d", 3) + ["k"], mode="field", functions=FUN)
def cr_equal(ctx):
    geometer, go = _g()
    a, c, d, k = ctx.vec("a", 3), ctx.vec("c", 3), ctx.vec("d", 3), ctx.sym("k")
    ctx.assume(ctx.neg(ctx.zero(k)))
    ctx.assume(ctx.neg(ctx.all_zero(a)))
    with ctx.stubs():
        cr = go.crossratio(geometer.Point(a), geometer.Point(k * a), geometer.Point(c), geometer.Point(d))
    ctx.ensure("cr(a,a,c,d)==1", ctx.zero(cr - 1))


@case("C11", "crossratio.points.notcollinear", names("a", 3) + names("b", 3) + names("c", 3) + names("d", 3), mode="field", functions=FUN,
      max_paths=1500, explore_time=600)
def cr_not_collinear(ctx):
    geometer, go = _g()
    from geometer.exceptions import NotCollinear

    a, b, c, d = (ctx.vec(k, 3) for k in "abcd")
    ctx.assume(ctx.neg(ctx.minors_zero(a, b)))
    collinear = ctx.conj([ctx.zero(geo.det([tolist(a), tolist(b), tolist(c)])), ctx.zero(geo.det([tolist(a), tolist(b), tolist(d)]))])
    try:
        with ctx.stubs():
            go.crossratio(*[geometer.Point(v) for v in (a, b, c, d)])
    except NotCollinear:
        ctx.ensure("raises-NotCollinear-only-if-not-collinear", ctx.neg(collinear))
        return
    ctx.ensure("returns-only-if-collinear", collinear)


@case("C11", "crossratio.lines.2d", names("g", 3) + names("h", 3) + ["s%d" % i for i in range(4)] + ["t%d" % i for i in range(4)], mode="field",
      functions=FUN + ["geometer.point.LineTensor.base_point"], timeout=120, max_paths=800, explore_time=900)
def cr_lines(ctx):
    """four lines s_i g + t_i h of the pencil with vertex g x h (any vertex, also at the origin or on an axis)"""
    geometer, go = _g()
    g, h = ctx.vec("g", 3), ctx.vec("h", 3)
    s, t = _params(ctx)
    _requires_generic(ctx, s, t)
    ctx.assume(ctx.neg(ctx.minors_zero(g, h)))
    L = [geometer.Line(s[i] * g + t[i] * h) for i in range(4)]
    l0, l1 = tolist(L[0].array), tolist(L[1].array)
    # requires (complex coordinates only): non-vanishing Gram determinant, cf. lemma.gram.real
    ctx.assume(ctx.neg(ctx.zero(dot(l0, l0) * dot(l1, l1) - dot(l0, l1) * dot(l0, l1))))
    with ctx.stubs():
        cr = go.crossratio(*L)
    ctx.ensure("value==closed-form", _closed_form_holds(ctx, cr, s, t))


@case("C11", "crossratio.lines.notconcurrent", names("a", 3) + names("b", 3) + names("c", 3) + names("d", 3), mode="field", functions=FUN,
      max_paths=1500, explore_time=600)
def cr_not_concurrent(ctx):
    geometer, go = _g()
    from geometer.exceptions import NotConcurrent

    a, b, c, d = (ctx.vec(k, 3) for k in "abcd")
    ctx.assume(ctx.neg(ctx.minors_zero(a, b)))
    conc = ctx.conj([ctx.zero(geo.det([tolist(a), tolist(b), tolist(c)])), ctx.zero(geo.det([tolist(a), tolist(b), tolist(d)]))])
    try:
        with ctx.stubs():
            go.crossratio(*[geometer.Line(v) for v in (a, b, c, d)])
    except NotConcurrent:
        ctx.ensure("raises-NotConcurrent-only-if-not-concurrent", ctx.neg(conc))
        return
    ctx.ensure("returns-only-if-concurrent", conc)


@case("C11", "harmonic_set.2d", names("a", 3) + names("b", 3) + ["s", "t"], mode="real",
      functions=["geometer.operators.harmonic_set", "geometer.point.SubspaceTensor.general_point", "geometer.point.LineTensor.direction"], timeout=180,
      max_paths=400, explore_time=900, tier="experimental")
def harmonic_2d(ctx):
    """d = harmonic_set(a, b, c) with c = s a + t b:  d ~ s a - t b  (cross ratio -1), on the line ab"""
    geometer, go = _g()
    a, b = ctx.vec("a", 3), ctx.vec("b", 3)
    s, t = ctx.sym("s"), ctx.sym("t")
    ctx.assume(ctx.neg(ctx.minors_zero(a, b)))
    ctx.assume(ctx.neg(ctx.zero(s)))
    ctx.assume(ctx.neg(ctx.zero(t)))
    c = s * a + t * b
    with ctx.stubs():
        d = go.harmonic_set(geometer.Point(a), geometer.Point(b), geometer.Point(c))
    ctx.ensure("harmonic-conjugate", ctx.proj_eq(d.array, [s * x - t * y for x, y in zip(tolist(a), tolist(b))]))


@case("C11", "lemma.gram.real", names("a", 4) + names("b", 4) + names("m", 6), mode="real", functions=[])
def lemma_gram(ctx):
    """for independent real vectors the Gram determinant is positive (used as a precondition in the field-mode cases):
    Lagrange identity (normal form) + a sum of squares of not-all-zero reals is positive (z3)"""
    a, b = ctx.vec("a", 4), ctx.vec("b", 4)
    la, lb = tolist(a), tolist(b)
    gram = dot(la, la) * dot(lb, lb) - dot(la, lb) * dot(la, lb)
    minors = geo.maximal_minors([la, lb])
    ctx.ensure("lagrange-identity:gram==sum-of-squared-minors", ctx.zero(gram - sum(m * m for m in minors), scale=None if ctx.symbolic else 1 + abs(gram)))
    m = tolist(ctx.vec("m", 6))
    ctx.assume(ctx.neg(ctx.conj([ctx.zero(x) for x in m])))
    tot = sum(x * x for x in m)
    ctx.ensure("sum-of-squares-positive", (tot > 0) if ctx.symbolic else bool(tot > 0))


@case("C11", "harmonic.crossratio.lattice", [], kind="bounded", functions=["geometer.operators.harmonic_set", "geometer.operators.crossratio", "geometer.point.SubspaceTensor.general_point"],
      bound="2D: 14 lines (axes, through the origin, vertical, horizontal, generic) x 6 parameter triples incl. a point at infinity; 3D: 6 lines x 4 triples; "
            "cross ratio of four concurrent 3D lines / coaxial planes for 5 pencils")
def harmonic_lattice(ctx):
    import geometer as g
    from geometer.operators import harmonic_set, crossratio

    lines2 = [((0, 0), (1, 0)), ((0, 0), (0, 1)), ((0, 0), (1, 1)), ((0, 3), (1, 3)), ((2, 0), (2, 1)), ((1, 2), (3, -1)), ((-1, -1), (2, 5)), ((0, 1), (1, 0)),
              ((0, -2), (0, 5)), ((5, 0), (-3, 0)), ((1, 1), (2, 2)), ((0, 0), (3, -2)), ((4, 1), (4, 7)), ((-2, 3), (6, 3))]
    params = [(0, 1, 2), (0, 1, 0.5), (-1, 3, 0.25), (0, 2, "inf"), (1, -2, 5), (0.5, 1.5, 3)]
    for (p0, p1) in lines2:
        P0, D = np.array(p0, dtype=float), np.array(p1, dtype=float) - np.array(p0, dtype=float)

        def pt(t):
            if t == "inf":
                return g.Point([D[0], D[1], 0.0])
            return g.Point(*(P0 + t * D))

        for (ta, tb, tc) in params:
            a, b, c = pt(ta), pt(tb), pt(tc)
            try:
                d = harmonic_set(a, b, c)
                cr = crossratio(a, b, c, d)
                ok = abs(cr + 1) < 1e-6 and bool(g.Line(a, b).contains(d))
                got = float(np.real(cr))
            except Exception as e:
                ok, got = False, "%s: %s" % (type(e).__name__, e)
            ctx.ensure("2d:harmonic_set-gives-cross-ratio--1-on-the-line", ok, witness=dict(line=(p0, p1), params=(ta, tb, tc), got=got))
    # positions of c on a fine grid (the auxiliary point of the construction must never coincide with c): lines missing the origin
    for (cx, cy) in itertools.product([k / 20 for k in range(-19, 20, 2)], repeat=2):
        for (u, v_) in ((1, 2), (2, -1)):
            a, b, c = g.Point(cx + u, cy + v_), g.Point(cx + 2 * u, cy + 2 * v_), g.Point(cx, cy)
            try:
                d = harmonic_set(a, b, c)
                cr = crossratio(a, b, c, d)
                ok = abs(cr + 1) < 1e-6
                got = float(np.real(cr))
            except Exception as e:
                ok, got = False, "%s: %s" % (type(e).__name__, e)
            ctx.ensure("2d:harmonic_set-for-every-position-of-c-on-a-grid", ok, witness=dict(c=(cx, cy), direction=(u, v_), got=got))
    lines3 = [((0, 0, 0), (1, 0, 0)), ((0, 0, 0), (1, 1, 1)), ((1, 2, 3), (0, 1, -1)), ((0, 0, 2), (0, 3, 0)), ((1, 1, 0), (0, 0, 1)), ((-1, 4, 2), (2, 2, 2))]
    for (p0, d0) in lines3:
        P0, D = np.array(p0, dtype=float), np.array(d0, dtype=float)
        for (ta, tb, tc) in params[:3] + [(1, -2, 5)]:
            a, b, c = (g.Point(*(P0 + t * D)) for t in (ta, tb, tc))
            try:
                d = harmonic_set(a, b, c)
                cr = crossratio(a, b, c, d)
                ok = abs(cr + 1) < 1e-6
                got = float(np.real(cr))
            except Exception as e:
                ok, got = False, "%s: %s" % (type(e).__name__, e)
            ctx.ensure("3d:harmonic_set-gives-cross-ratio--1", ok, witness=dict(line=(p0, d0), params=(ta, tb, tc), got=got))
        # closed form for four collinear points in 3-space
        xs = (0, 1, 3, -2)
        pts = [g.Point(*(P0 + x * D)) for x in xs]
        want = (xs[0] - xs[2]) * (xs[1] - xs[3]) / ((xs[0] - xs[3]) * (xs[1] - xs[2]))
        ctx.ensure("3d:crossratio-of-collinear-points", abs(crossratio(*pts) - want) < 1e-6, witness=dict(line=(p0, d0), xs=xs, want=want, got=float(np.real(crossratio(*pts)))))


@case("C11", "crossratio.3d.lattice", [], kind="bounded", functions=["geometer.operators.crossratio"],
      bound="3D: 12 coplanar but non-collinear point quadruples (NotCollinear expected), 6 pencils of four concurrent coplanar lines, 4 pencils of coaxial planes")
def crossratio_3d_lattice(ctx):
    import geometer as g
    from geometer.operators import crossratio
    from geometer.exceptions import NotCollinear

    base = [((0, 0, 0), (1, 0, 0), (2, 0, 0), (0, 1, 0)), ((1, 1, 1), (2, 2, 2), (3, 3, 3), (1, 0, 0)), ((0, 0, 1), (0, 1, 1), (0, 3, 1), (2, 2, 1))]
    for q in base:
        for sh in [(0, 0, 0), (1, -2, 3), (0, 5, 0), (-1, -1, -1)]:
            pts = [g.Point(*[x + y for x, y in zip(p, sh)]) for p in q]
            try:
                v = crossratio(*pts)
                ok, got = False, float(np.real(v))
            except NotCollinear:
                ok, got = True, "NotCollinear"
            ctx.ensure("3d:coplanar-non-collinear-points-raise-NotCollinear", ok, witness=dict(points=q, shift=sh, got=got))
    xs = [0, 1, 3, -2]
    want = (xs[0] - xs[2]) * (xs[1] - xs[3]) / ((xs[0] - xs[3]) * (xs[1] - xs[2]))
    for v, u, w in [((1, 2, 3), (1, 0, 0), (0, 1, 1)), ((0, 0, 0), (1, 1, 0), (0, 0, 1)), ((2, 0, -1), (0, 1, 0), (1, 0, 2)), ((0, 0, 0), (1, 0, 0), (0, 1, 0)),
                    ((5, 5, 5), (1, -1, 0), (1, 1, -2)), ((0, 3, 0), (0, 0, 1), (2, 1, 0))]:
        V, U, W = (np.array(t, dtype=float) for t in (v, u, w))
        ls = [g.Line(g.Point(*V), g.Point(*(V + U + x * W))) for x in xs]
        try:
            got = float(np.real(crossratio(*ls)))
            ok = abs(got - want) < 1e-6
        except Exception as e:
            ok, got = False, "%s: %s" % (type(e).__name__, e)
        ctx.ensure("3d:four-concurrent-coplanar-lines", ok, witness=dict(vertex=v, u=u, w=w, want=want, got=got), excuse=("KF-C11-1", None))
    for n1, n2 in [((1, 0, 0), (0, 1, 0)), ((1, 1, 0), (0, 0, 1)), ((1, 2, 3), (1, -1, 0)), ((0, 1, 1), (2, 0, -1))]:
        N1, N2 = np.array(n1, dtype=float), np.array(n2, dtype=float)
        for off in (0, 2):
            E = [g.Plane(*(s_ * N1 + t_ * N2), -off * (s_ * N1[0] + t_ * N2[0])) for s_, t_ in ((1, 0), (0, 1), (1, 1), (1, 3))]
            wantp = (1 * 1 - 0 * 1) * (0 * 3 - 1 * 1) / ((1 * 3 - 0 * 1) * (0 * 1 - 1 * 1))
            try:
                got = float(np.real(crossratio(*E)))
                ok = abs(got - wantp) < 1e-6
            except Exception as e:
                ok, got = False, "%s: %s" % (type(e).__name__, e)
            ctx.ensure("3d:four-coaxial-planes", ok, witness=dict(n1=n1, n2=n2, offset=off, want=wantp, got=got))

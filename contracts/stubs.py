"""Functional contracts of opaque callees (used at call sites instead of the body).  Each stub is
justified by a case that verifies the real body against the same contract (see the module named)."""
from __future__ import annotations

import contextlib

import numpy as _np

from gvc import patch
from gvc import sym as S
from gvc.snp import ExpSym, SymArray, _inv_scale, _map, _unview, wrap
from gvc.sym import Sym, band, bnot, bor, mk_eq0


def divide_by_power_of_two_stub(array, power):
    """contract (verified in c01: `divpow2.*`):  result == array * 2**-power elementwise"""
    p = _np.asarray(power, dtype=object) if not isinstance(power, _np.ndarray) else _unview(power)
    a = _unview(array)
    if a.dtype != object:
        from gvc.snp import to_obj

        a = _unview(to_obj(a))

    def f(x, e):
        if not isinstance(e, ExpSym):
            raise S.EngineGap("power-of-two stub: exponent is not an ExpSym")
        return x * _inv_scale(e.v)

    uf = _np.frompyfunc(f, 2, 1)
    return wrap(uf(a, p))


def is_multiple_spec(a, b, axis=None, rtol=1.0e-5, atol=1.0e-8):
    """contract (verified in c20: `is_multiple.*`): along `axis`, true iff all 2x2 minors of (a, b) vanish
    (idealised tolerance); this includes the zero vector being a multiple of everything."""
    a, b = _np.broadcast_arrays(_unview(_np.asarray(a, dtype=object)), _unview(_np.asarray(b, dtype=object)))
    if axis is None:
        a = a.reshape(-1)
        b = b.reshape(-1)
        axis = (0,)
    elif isinstance(axis, (int, _np.integer)):
        axis = (int(axis),)
    axis = tuple(x % a.ndim for x in axis)
    keep = [i for i in range(a.ndim) if i not in axis]
    at = a.transpose(keep + list(axis)).reshape(tuple(a.shape[i] for i in keep) + (-1,))
    bt = b.transpose(keep + list(axis)).reshape(at.shape)
    out = _np.empty(at.shape[:-1], dtype=object)
    n = at.shape[-1]
    for idx in _np.ndindex(*at.shape[:-1]):
        x, y = at[idx], bt[idx]
        cl = []
        for i in range(n):
            for j in range(i + 1, n):
                cl.append(mk_eq0(Sym.const(x[i]) * y[j] - Sym.const(x[j]) * y[i]))
        out[idx] = band(*cl)
    return wrap(out)


@contextlib.contextmanager
def standard_stubs(divpow2=True, is_multiple=True, segment_contains=False, orth=False):
    with contextlib.ExitStack() as st:
        if orth:
            st.enter_context(patch.opaque("geometer.utils.math.orth", orth_stub))
        if segment_contains:
            st.enter_context(patch.opaque("geometer.shapes.SegmentTensor.contains", segment_contains_stub))
        if divpow2:
            st.enter_context(patch.opaque("geometer.point._divide_by_power_of_two", divide_by_power_of_two_stub))
        if is_multiple:
            st.enter_context(patch.opaque("geometer.utils.math.is_multiple", is_multiple_spec))
        yield


def segment_contains_formula(ctx_like, a, b, p):
    """contract of SegmentTensor.contains for a finite 2D segment ab (any homogeneous representatives) and any point p:
    p is finite, on the line ab, and its foot parameter lies in [0, 1].  Plain arithmetic on lists; returns a tuple of the
    quantities (det, pz, n1, n2) with   contains  <=>  det == 0 and pz != 0 and n1 >= 0 and n2 >= 0"""
    az, bz, pz = a[2], b[2], p[2]
    X = [p[0] * az - a[0] * pz, p[1] * az - a[1] * pz]
    Y = [b[0] * az - a[0] * bz, b[1] * az - a[1] * bz]
    s1, s2 = pz * az, bz * az
    xy = X[0] * Y[0] + X[1] * Y[1]
    yy = Y[0] * Y[0] + Y[1] * Y[1]
    det = a[0] * (b[1] * p[2] - b[2] * p[1]) - a[1] * (b[0] * p[2] - b[2] * p[0]) + a[2] * (b[0] * p[1] - b[1] * p[0])
    n1 = xy * s1 * s2
    n2 = yy * s1 * s1 - xy * s1 * s2
    return det, pz, n1, n2


def segment_contains_stub(self, other, tol=1e-8):
    """opaque SegmentTensor.contains (2D, single finite segment, single point); contract verified by
    C16/segment.contains.general.2d on the real body"""
    import geometer

    if self.dim != 2 or self.free_indices != 0 + 1 and False:
        raise S.EngineGap("segment contains stub: only 2D")
    arr = _unview(self.array)
    o = _unview(other.array)
    if arr.shape != (2, 3) or o.shape != (3,):
        raise S.EngineGap("segment contains stub: only single segments / points")
    a, b, p = list(arr[0]), list(arr[1]), list(o)
    det, pz, n1, n2 = segment_contains_formula(None, a, b, p)
    return band(mk_eq0(Sym.const(det)), bnot(mk_eq0(Sym.const(pz))), Sym.const(n1) >= 0, Sym.const(n2) >= 0)


def orth_stub(A, dim=None):
    """relational contract of geometer.utils.math.orth (SVD leaf) for a real (n, k) matrix of full column rank k == dim:
    the result M (n, k) has orthonormal columns (M^T M == I) spanning the range of A (A == M M^T A).  M consists of fresh
    symbols constrained only by these relations (recorded as facts of the path)."""
    R = S.cur()
    A = _unview(_np.asarray(A))
    if A.ndim != 2 or dim is None or A.shape[1] != dim:
        raise S.EngineGap("orth stub: only (n, k) matrices with dim == k")
    n, k = A.shape
    M = _np.empty((n, k), dtype=object)
    for i in range(n):
        for j in range(k):
            M[i, j] = R.fresh("free", why="orth basis entry")
    for a in range(k):
        for b in range(a, k):
            t = sum((M[i, a] * M[i, b] for i in range(n)), Sym.const(0)) - (1 if a == b else 0)
            R.facts.append(mk_eq0(t))
    MtA = [[sum((M[i, a] * Sym.const(A[i, c]) for i in range(n)), Sym.const(0)) for c in range(k)] for a in range(k)]
    for i in range(n):
        for c in range(k):
            t = sum((M[i, a] * MtA[a][c] for a in range(k)), Sym.const(0)) - Sym.const(A[i, c])
            R.facts.append(mk_eq0(t))
    return wrap(M)

"""C17 / C18: polytope measures, polytope equality, polytope intersections."""
from __future__ import annotations

import itertools
import math

import numpy as np

from gvc.harness import case, names
from contracts import geo
from contracts.geo import dot, tolist


def _g():
    import geometer
    import geometer.shapes as gs

    return geometer, gs


def _hom(ctx, geometer, v, s):
    return geometer.Point(np.append(v, [1]) * s)


def _shoelace2(vs):
    """twice the signed area"""
    n = len(vs)
    return sum(vs[i][0] * vs[(i + 1) % n][1] - vs[(i + 1) % n][0] * vs[i][1] for i in range(n))


def _area_case(n):
    syms = []
    for k in range(n):
        syms += names("v%d" % k, 2) + ["s%d" % k]

    @case("C17", "polygon.area.centroid.2d.n%d" % n, syms, mode="real",
          functions=["geometer.shapes.PolygonTensor.area", "geometer.shapes.PolygonTensor._normalized_projection", "geometer.shapes.Polygon.centroid"],
          timeout=120, max_paths=300, explore_time=600, also=("C03",), share=True)
    def _(ctx):
        geometer, gs = _g()
        vs = [ctx.vec("v%d" % k, 2) for k in range(n)]
        ss = [ctx.sym("s%d" % k) for k in range(n)]
        for s in ss:
            ctx.assume(ctx.neg(ctx.zero(s)))
        with ctx.stubs():
            P = gs.Polygon(*[_hom(ctx, geometer, v, s) for v, s in zip(vs, ss)])
            a = P.area
        A2 = _shoelace2([tolist(v) for v in vs])
        ctx.ensure("area^2==(shoelace/2)^2", ctx.zero(4 * (a ** 2 if ctx.symbolic else float(a) ** 2) - A2 * A2, scale=None if ctx.symbolic else 1 + A2 * A2))
        ctx.ensure("area>=0", (a >= 0) if ctx.symbolic else bool(a >= 0))
        # invariance under cyclic rotation and reversal of the vertex list (on the real function)
        with ctx.stubs():
            P2 = gs.Polygon(*[_hom(ctx, geometer, v, s) for v, s in zip(vs[1:] + vs[:1], ss[1:] + ss[:1])])
            P3 = gs.Polygon(*[_hom(ctx, geometer, v, s) for v, s in zip(vs[::-1], ss[::-1])])
            a2, a3 = P2.area, P3.area
        sq = (lambda x: x ** 2) if ctx.symbolic else (lambda x: float(x) ** 2)
        ctx.ensure("area-invariant-under-roll-and-reversal", ctx.conj([ctx.zero(sq(a) - sq(a2), scale=None if ctx.symbolic else 1 + sq(a)),
                                                                      ctx.zero(sq(a) - sq(a3), scale=None if ctx.symbolic else 1 + sq(a))]))
        if n <= 4:
            ctx.assume(ctx.neg(ctx.zero(A2)))
            with ctx.stubs():
                c = P.centroid
            V = [tolist(v) for v in vs]
            cx = sum((V[i][0] + V[(i + 1) % n][0]) * (V[i][0] * V[(i + 1) % n][1] - V[(i + 1) % n][0] * V[i][1]) for i in range(n))
            cy = sum((V[i][1] + V[(i + 1) % n][1]) * (V[i][0] * V[(i + 1) % n][1] - V[(i + 1) % n][0] * V[i][1]) for i in range(n))
            # centroid = (cx, cy) / (3 * A2)
            ctx.ensure("centroid==area-centroid", ctx.conj([isinstance(c, geometer.Point), ctx.minors_zero(c.array, [cx, cy, 3 * A2]), ctx.neg(ctx.zero(c.array[2]))]))


for _n in (3, 4, 5):
    _area_case(_n)


@case("C17", "simplex.volume", names("a", 3) + names("b", 3) + names("c", 3) + names("d", 3), mode="real",
      functions=["geometer.shapes.Simplex.volume"], timeout=120, max_paths=300)
def simplex_volume(ctx):
    geometer, gs = _g()
    a, b, c, d = (ctx.vec(k, 3) for k in "abcd")
    A, B, C, D = (geometer.Point(*v) for v in (a, b, c, d))
    la, lb, lc, ld = (tolist(v) for v in (a, b, c, d))
    sq = (lambda x: x ** 2) if ctx.symbolic else (lambda x: float(x) ** 2)
    # triangle in the plane: |det| / 2
    d2 = geo.det([la[:2] + [1], lb[:2] + [1], lc[:2] + [1]])
    ctx.assume(ctx.neg(ctx.zero(d2)))  # a proper (non-degenerate) simplex
    with ctx.stubs():
        t = gs.Simplex(geometer.Point(*a[:2]), geometer.Point(*b[:2]), geometer.Point(*c[:2]))
        v2 = t.volume
    ctx.ensure("triangle-2d:volume==|det|/2", ctx.conj([ctx.zero(4 * sq(v2) - d2 * d2, scale=None if ctx.symbolic else 1 + d2 * d2), (v2 >= 0) if ctx.symbolic else bool(v2 >= 0)]))
    # triangle embedded in 3-space: Cayley-Menger branch, area^2 = |(b-a) x (c-a)|^2 / 4
    ctx.assume(ctx.neg(ctx.conj([ctx.zero(x) for x in geo.cross([lb[i] - la[i] for i in range(3)], [lc[i] - la[i] for i in range(3)])])))
    with ctx.stubs():
        t3 = gs.Simplex(A, B, C)
        v3 = t3.volume
    cr = geo.cross([lb[i] - la[i] for i in range(3)], [lc[i] - la[i] for i in range(3)])
    g2 = dot(cr, cr)
    ctx.ensure("triangle-3d:volume^2==|cross|^2/4", ctx.zero(4 * sq(v3) - g2, scale=None if ctx.symbolic else 1 + g2))


@case("C17", "tetrahedron.volume", names("a", 3) + names("b", 3) + names("c", 3) + names("d", 3), mode="real",
      functions=["geometer.shapes.Simplex.volume", "geometer.shapes.Simplex.__init__", "geometer.shapes.PolytopeTensor.vertices"], timeout=180, max_paths=600,
      explore_time=900, tier="thorough")
def tetra_volume(ctx):
    geometer, gs = _g()
    a, b, c, d = (ctx.vec(k, 3) for k in "abcd")
    la, lb, lc, ld = (tolist(v) for v in (a, b, c, d))
    d3 = geo.det([la + [1], lb + [1], lc + [1], ld + [1]])
    ctx.assume(ctx.neg(ctx.zero(d3)))
    with ctx.stubs():
        s = gs.Simplex(*[geometer.Point(*v) for v in (a, b, c, d)])
        v = s.volume
    sq = (lambda x: x ** 2) if ctx.symbolic else (lambda x: float(x) ** 2)
    ctx.ensure("volume==|det|/6", ctx.zero(36 * sq(v) - d3 * d3, scale=None if ctx.symbolic else 1 + d3 * d3))


@case("C17", "segment.length", names("a", 3) + names("b", 3), mode="real", functions=["geometer.shapes.SegmentTensor.length", "geometer.operators.dist"],
      timeout=60, max_paths=64)
def segment_length(ctx):
    geometer, gs = _g()
    a, b = ctx.vec("a", 3), ctx.vec("b", 3)
    ctx.assume(ctx.neg(ctx.zero(a[2])))
    ctx.assume(ctx.neg(ctx.zero(b[2])))
    ctx.assume(ctx.neg(ctx.minors_zero(a, b)))
    with ctx.stubs():
        s = gs.Segment(geometer.Point(a), geometer.Point(b))
        L = s.length
    la, lb = tolist(a), tolist(b)
    num = (la[0] * lb[2] - lb[0] * la[2]) ** 2 + (la[1] * lb[2] - lb[1] * la[2]) ** 2
    den = (la[2] * lb[2]) ** 2
    ctx.ensure("length^2==cartesian", ctx.zero((L ** 2 if ctx.symbolic else float(L) ** 2) * den - num, scale=None if ctx.symbolic else 1 + num))


@case("C17", "polytope.eq.polygon", names("p", 4, 3) + ["k0", "k1", "k2", "k3"], mode="field", functions=["geometer.shapes.PolytopeTensor.__eq__"], also=("C03",), share=True,
      timeout=120, max_paths=800, explore_time=600)
def polytope_eq(ctx):
    """quadrilateral: equal to every cyclic rotation / reversal with arbitrarily rescaled vertices; == implies such a matching"""
    geometer, gs = _g()
    V = ctx.arr("p", 4, 3)
    ks = [ctx.sym("k%d" % i) for i in range(4)]
    for k in ks:
        ctx.assume(ctx.neg(ctx.zero(k)))
    for i in range(4):
        ctx.assume(ctx.neg(ctx.all_zero(V[i])))
    with ctx.stubs():
        P = gs.Polygon(np.array(V), copy=False) if not ctx.symbolic else gs.Polygon(V)
        for r in range(4):
            rows = [ks[(i + r) % 4] * V[(i + r) % 4] for i in range(4)]
            Q = gs.Polygon(np.stack(rows))
            ctx.ensure("equal-to-rotated-rescaled", bool(P == Q))
            Qr = gs.Polygon(np.stack(rows[::-1]))
            ctx.ensure("equal-to-reversed-rescaled", bool(P == Qr))


def _cycle_matchings(n):
    out = []
    for r in range(n):
        out.append([(i + r) % n for i in range(n)])
        out.append([(r - i) % n for i in range(n)])
    return out


@case("C17", "polytope.eq.iff", names("p", 4, 3) + names("q", 4, 3), mode="field", functions=["geometer.shapes.PolytopeTensor.__eq__"],
      timeout=120, max_paths=200, explore_time=600)
def polytope_eq_iff(ctx):
    """two arbitrary quadrilaterals: == exactly when the vertex cycles match up to rotation / reversal (both directions)"""
    geometer, gs = _g()
    P, Q = ctx.arr("p", 4, 3), ctx.arr("q", 4, 3)
    for i in range(4):
        ctx.assume(ctx.neg(ctx.all_zero(P[i])))
        ctx.assume(ctx.neg(ctx.all_zero(Q[i])))
    with ctx.stubs():
        r = gs.Polygon(np.array(P)) == gs.Polygon(np.array(Q))
    spec = ctx.disj([ctx.conj([ctx.minors_zero(P[i], Q[m[i]]) for i in range(4)]) for m in _cycle_matchings(4)])
    ctx.ensure("==<=>same-vertex-cycle-up-to-rotation/reversal", ctx.iff(bool(r), spec))


@case("C17", "polytope.eq.collection", names("p", 2, 3, 3) + names("q", 2, 3, 3), mode="field", functions=["geometer.shapes.PolytopeTensor.__eq__"],
      timeout=120, max_paths=200, explore_time=600)
def polytope_eq_collection(ctx):
    """collections of two triangles (the vertex axis is not axis 0): == exactly when ONE rotation / reversal of the vertex axis matches every element;
    in particular swapping the elements of the collection is not a reversal"""
    geometer, gs = _g()
    P, Q = ctx.arr("p", 2, 3, 3), ctx.arr("q", 2, 3, 3)
    for k in range(2):
        for i in range(3):
            ctx.assume(ctx.neg(ctx.all_zero(P[k][i])))
            ctx.assume(ctx.neg(ctx.all_zero(Q[k][i])))
    with ctx.stubs():
        r = gs.PolygonCollection(np.array(P)) == gs.PolygonCollection(np.array(Q))
    spec = ctx.disj([ctx.conj([ctx.minors_zero(P[k][i], Q[k][m[i]]) for k in range(2) for i in range(3)]) for m in _cycle_matchings(3)])
    ctx.ensure("collection:==<=>one-rotation/reversal-matches-every-element", ctx.iff(bool(r), spec))


# ------------------------------------------------------------------------------------------------ bounded


@case("C17", "measures.lattice", [], kind="bounded", also=("C03",),
      functions=["geometer.shapes.RegularPolygon.center", "geometer.shapes.RegularPolygon.radius", "geometer.shapes.RegularPolygon.inradius", "geometer.shapes.PolygonTensor.area",
                 "geometer.shapes.Polyhedron.area", "geometer.shapes.Triangle.circumcenter", "geometer.shapes.SegmentTensor.midpoint"],
      bound="RegularPolygon n=3..8 x 6 centres x 3 radii (2D) and 4 axes (3D); 3D polygons = lattice polygons under 6 rigid motions; cuboids 3x3x3 sizes x 4 positions; "
            "triangles on {-2..3}^2 (circumcenter), segments on the lattice (midpoint)")
def measures_lattice(ctx):
    import geometer as g
    from geometer.shapes import RegularPolygon, Polygon, Cuboid, Triangle, Segment
    from geometer.operators import dist
    from geometer.transformation import rotation, translation

    for n in range(3, 9):
        for c in [(0, 0), (3, 4), (-2, 1), (0.5, -1.5), (10, 0), (-3, -3)]:
            for r in (1, 2, 0.5):
                p = RegularPolygon(g.Point(*c), r, n)
                w = dict(n=n, center=c, radius=r)
                ctx.ensure("regular-polygon-center", np.allclose(p.center.normalized_array[:-1], c, atol=1e-7), witness=dict(w, got=p.center.normalized_array.tolist()))
                ctx.ensure("regular-polygon-radius", abs(dist(g.Point(*c), p.vertices[0]) - r) < 1e-7 and abs(p.radius - r) < 1e-7, witness=dict(w, got=float(p.radius)))
                ctx.ensure("regular-polygon-inradius", abs(p.inradius - r * math.cos(math.pi / n)) < 1e-7, witness=dict(w, got=float(p.inradius)))
                ctx.ensure("regular-polygon-area", abs(p.area - n * r * r * math.sin(2 * math.pi / n) / 2) < 1e-7, witness=dict(w, got=float(p.area)))
                # the same polygon with other homogeneous representatives of its vertices (one row rescaled, one negated)
                q = p.copy()
                sc = np.ones(n)
                sc[0], sc[n - 1] = 3.0, -2.0
                q.array = p.array * sc[:, None]
                ok = bool(q == p) and np.allclose(q.center.normalized_array[:-1], c, atol=1e-7) and abs(q.radius - r) < 1e-7 and abs(q.inradius - r * math.cos(math.pi / n)) < 1e-7 \
                    and abs(q.area - p.area) < 1e-7
                ctx.ensure("regular-polygon:measures-independent-of-the-vertex-representatives", ok, prop=("C17", "C03"),
                           witness=dict(w, scales=sc.tolist(), center=q.center.normalized_array.tolist(), radius=float(q.radius), inradius=float(q.inradius)))
    for axis in [(0, 0, 1), (1, 1, 1), (1, 0, 2), (-1, 2, 0)]:
        for c in [(0, 0, 0), (1, 2, 3)]:
            p = RegularPolygon(g.Point(*c), 2, 5, axis=g.Point(*axis))
            w = dict(axis=axis, center=c)
            ctx.ensure("regular-polygon-3d-center", np.allclose(p.center.normalized_array[:-1], c, atol=1e-7), witness=dict(w, got=p.center.normalized_array.tolist()))
            ctx.ensure("regular-polygon-3d-area", abs(p.area - 5 * 4 * math.sin(2 * math.pi / 5) / 2) < 1e-6, witness=dict(w, got=float(p.area)))
    polys = [[(0, 0), (4, 0), (4, 4), (2, 1), (0, 4)], [(0, 0), (4, 0), (4, 3), (0, 3)], [(0, 0), (4, 1), (1, 4)], [(0, 0), (4, 0), (4, 2), (2, 2), (2, 4), (0, 4)]]
    motions = [translation(0, 0, 0), translation(1, 2, 3), rotation(0.7, axis=g.Point(1, 0, 0)), rotation(1.1, axis=g.Point(1, 2, 3)) * translation(0, 0, 2),
               rotation(2.0, axis=g.Point(0, 1, 1)), translation(1, 1, 1) * rotation(-0.4, axis=g.Point(1, -1, 2))]
    for vs in polys:
        want = abs(_shoelace2(vs)) / 2
        for k, t in enumerate(motions):
            P = t * Polygon(*[g.Point(x, y, 0) for x, y in vs])
            ctx.ensure("polygon-3d-area", abs(P.area - want) < 1e-6, witness=dict(vertices=vs, motion=k, got=float(P.area), want=want))
            # area centroid of the embedded polygon = image of the planar area centroid, for every start vertex and both orientations (non-convex polygons included)
            A2 = _shoelace2(vs)
            cx = sum((vs[i][0] + vs[(i + 1) % len(vs)][0]) * (vs[i][0] * vs[(i + 1) % len(vs)][1] - vs[(i + 1) % len(vs)][0] * vs[i][1]) for i in range(len(vs))) / (3 * A2)
            cy = sum((vs[i][1] + vs[(i + 1) % len(vs)][1]) * (vs[i][0] * vs[(i + 1) % len(vs)][1] - vs[(i + 1) % len(vs)][0] * vs[i][1]) for i in range(len(vs))) / (3 * A2)
            wantc = (t * g.Point(cx, cy, 0)).normalized_array[:3]
            for r in range(len(vs)):
                for rev in (False, True):
                    vv = vs[r:] + vs[:r]
                    vv = vv[::-1] if rev else vv
                    Q = t * Polygon(*[g.Point(x, y, 0) for x, y in vv])
                    got = np.real(Q.centroid.normalized_array[:3])
                    ctx.ensure("polygon-3d-centroid==image-of-the-area-centroid", np.allclose(got, wantc, atol=1e-6), witness=dict(vertices=vv, motion=k, got=got.tolist(), want=np.asarray(wantc).tolist()))
    # measures of a polygon that was QUERIED before it was moved (derived state stored on the object must not leak into the image)
    from geometer.shapes import Rectangle
    for k, t in enumerate(motions[1:]):
        for make in (lambda: Triangle(g.Point(0, 0, 0), g.Point(4, 0, 0), g.Point(0, 3, 0)), lambda: Polygon(*[g.Point(x, y, 0) for x, y in polys[0]]),
                     lambda: RegularPolygon(g.Point(1, 1, 0), 2, 6, axis=g.Point(0, 0, 1))):
            P = make()
            fresh = t * make()
            _ = P.edges, P.area, P.vertices, P.facets, P.angles, P.contains(g.Point(1, 1, 0)), P.intersect(g.Line(g.Point(1, 1, -1), g.Point(1, 1, 1)))
            if hasattr(P, "circumcenter"):
                _ = P.circumcenter
            if hasattr(P, "inradius"):
                _ = P.inradius, P.radius, P.center
            Q = t * P
            ok = Q == fresh and abs(Q.area - fresh.area) < 1e-7 and all(a == b for a, b in zip(Q.vertices, fresh.vertices)) and Q.edges == fresh.edges \
                and bool(Q.contains(t * g.Point(1, 1, 0))) == bool(fresh.contains(t * g.Point(1, 1, 0)))
            if hasattr(P, "circumcenter"):
                ok = ok and Q.circumcenter == fresh.circumcenter
            if hasattr(P, "inradius"):
                ok = ok and abs(Q.inradius - fresh.inradius) < 1e-7 and Q.center == fresh.center
            if hasattr(P, "centroid"):
                ok = ok and Q.centroid == fresh.centroid
            ctx.ensure("polygon-queried-before-the-motion==polygon-moved-first", ok, witness=dict(motion=k + 1, polygon=type(P).__name__))
    # quadrilaterals that are NOT rectangles reach the class Rectangle through indexing / facets: their area is still the shoelace area
    from geometer.shapes import PolygonCollection
    quads = [[(0, 0), (4, 0), (3, 2), (1, 2)], [(0, 0), (3, 1), (4, 4), (-1, 2)], [(0, 0), (2, -1), (4, 0), (2, 3)], [(1, 1), (5, 1), (6, 3), (2, 3)]]
    qc = PolygonCollection(np.array([[list(v) + [1.0] for v in q] for q in quads]))
    for i, q in enumerate(quads):
        want = abs(_shoelace2(q)) / 2
        el = qc[i]
        ctx.ensure("quadrilateral-reached-by-indexing:area==shoelace", abs(float(el.area) - want) < 1e-9 and abs(float(qc.area[i]) - want) < 1e-9 and abs(float(list(qc)[i].area) - want) < 1e-9,
                   witness=dict(quadrilateral=q, cls=type(el).__name__, got=float(el.area), want=want))
    O = g.Point(0, 0, 0)
    sheared = Cuboid(O, g.Point(2, 0, 0), g.Point(1, 2, 0), g.Point(0.5, 0.5, 3))  # a parallelepiped: its faces are parallelograms
    fa = [float(f.area) for f in sheared.faces]
    a_, b_, c_ = np.array([2.0, 0, 0]), np.array([1.0, 2, 0]), np.array([0.5, 0.5, 3])
    wantp = 2 * (np.linalg.norm(np.cross(a_, b_)) + np.linalg.norm(np.cross(b_, c_)) + np.linalg.norm(np.cross(a_, c_)))
    ctx.ensure("parallelepiped:faces-and-total-area", abs(sum(fa) - wantp) < 1e-6 and abs(float(sheared.area) - wantp) < 1e-6, witness=dict(faces=fa, total=float(sheared.area), want=float(wantp)))
    # a polyhedron that was queried before it is moved
    for k, t in enumerate(motions[1:4]):
        c0 = Cuboid(O, g.Point(2, 0, 0), g.Point(0, 1, 0), g.Point(0, 0, 3))
        ln = g.Line(g.Point(1, 0.5, -5), g.Point(1, 0.5, 5))
        _ = c0.faces, c0.area, c0.edges, c0.vertices, c0.intersect(ln)
        moved = t * c0
        fresh = t * Cuboid(O, g.Point(2, 0, 0), g.Point(0, 1, 0), g.Point(0, 0, 3))
        got = sorted(tuple(np.round(np.real(x.normalized_array[:3]), 6)) for x in moved.intersect(t * ln))
        want_pts = sorted(tuple(np.round(np.real((t * g.Point(1, 0.5, z)).normalized_array[:3]), 6)) for z in (0, 3))
        ok = moved == fresh and abs(float(moved.area) - 22) < 1e-6 and moved.faces == fresh.faces and np.allclose(got, want_pts, atol=1e-5)
        ctx.ensure("polyhedron-queried-before-the-motion==polyhedron-moved-first", ok, witness=dict(motion=k + 1, area=float(moved.area), got=str(got)))
    for (a, b, c) in itertools.product((1, 2, 3.5), repeat=3):
        for o in [(0, 0, 0), (1, -2, 3), (-1, -1, -1), (0.5, 0, 2)]:
            O = g.Point(*o)
            cb = Cuboid(O, O + g.Point(a, 0, 0), O + g.Point(0, b, 0), O + g.Point(0, 0, c))
            ctx.ensure("cuboid-area", abs(cb.area - 2 * (a * b + b * c + a * c)) < 1e-6, witness=dict(size=(a, b, c), origin=o, got=float(cb.area)))
    pts = list(itertools.product(range(-2, 4), repeat=2))
    for i, (a, b, c) in enumerate(itertools.combinations(pts[::3], 3)):
        if i % 5:
            continue
        d = (b[0] - a[0]) * (c[1] - a[1]) - (c[0] - a[0]) * (b[1] - a[1])
        if d == 0:
            continue
        cc = Triangle(g.Point(*a), g.Point(*b), g.Point(*c)).circumcenter
        r = [float(dist(cc, g.Point(*v))) for v in (a, b, c)]
        ctx.ensure("circumcenter-equidistant", max(r) - min(r) < 1e-6, witness=dict(triangle=(a, b, c), radii=r))
    for a, b in itertools.combinations(pts[::4], 2):
        m = Segment(g.Point(*a), g.Point(*b)).midpoint
        ctx.ensure("segment-midpoint", np.allclose(m.normalized_array[:-1], [(a[0] + b[0]) / 2, (a[1] + b[1]) / 2], atol=1e-7), witness=dict(a=a, b=b, got=m.normalized_array.tolist()))


# ================================================================================================ C18


@case("C18", "segment.intersect.segment.2d", names("a", 2) + names("b", 2) + names("c", 2) + names("d", 2), mode="real",
      functions=["geometer.shapes.SegmentTensor.intersect", "geometer.shapes.SegmentTensor.contains", "geometer.point.meet"], timeout=180, max_paths=400,
      explore_time=900)
def seg_intersect_seg(ctx):
    """segments ab and cd (finite, affine coordinates): the result is [x] with x the crossing point iff the lines are not
    parallel and both affine parameters lie in [0,1]; otherwise [] (parallel/collinear operands give no spurious point)"""
    geometer, gs = _g()
    a, b, c, d = (ctx.vec(k, 2) for k in "abcd")
    la, lb, lc, ld = (tolist(v) for v in (a, b, c, d))
    ctx.assume(ctx.neg(ctx.conj([ctx.zero(la[0] - lb[0]), ctx.zero(la[1] - lb[1])])))
    ctx.assume(ctx.neg(ctx.conj([ctx.zero(lc[0] - ld[0]), ctx.zero(lc[1] - ld[1])])))
    with ctx.stubs(segment_contains=True):  # callee contract instead of the body (C16/segment.contains.general.2d)
        s1 = gs.Segment(geometer.Point(*a), geometer.Point(*b))
        s2 = gs.Segment(geometer.Point(*c), geometer.Point(*d))
        res = s1.intersect(s2)
    # a + t (b - a) = c + u (d - c):  t = det(c - a, d - c) / D,  u = det(c - a, b - a) / D,  D = det(b - a, d - c)
    r = [lb[0] - la[0], lb[1] - la[1]]
    s = [ld[0] - lc[0], ld[1] - lc[1]]
    w = [lc[0] - la[0], lc[1] - la[1]]
    D = r[0] * s[1] - r[1] * s[0]
    tn = w[0] * s[1] - w[1] * s[0]
    un = w[0] * r[1] - w[1] * r[0]
    if ctx.symbolic:
        inside = ctx.conj([ctx.neg(ctx.zero(D)), tn * D >= 0, (tn - D) * D <= 0, un * D >= 0, (un - D) * D <= 0])
    else:
        inside = abs(D) > 1e-9 and tn * D >= -1e-9 and (tn - D) * D <= 1e-9 and un * D >= -1e-9 and (un - D) * D <= 1e-9
    ctx.ensure("at-most-one-point", len(res) <= 1)
    ctx.ensure("one-point<=>proper-or-touching-crossing", ctx.iff(len(res) == 1, inside))
    if len(res) == 1:
        x = tolist(res[0].array)
        spec = [la[0] * D + tn * r[0], la[1] * D + tn * r[1], D]
        ctx.ensure("the-point-is-the-crossing", ctx.minors_zero(x, spec))


@case("C18", "segment.intersect.line.2d", names("a", 2) + names("b", 2) + names("l", 3), mode="real",
      functions=["geometer.shapes.SegmentTensor.intersect"], timeout=180, max_paths=400, explore_time=900)
def seg_intersect_line(ctx):
    geometer, gs = _g()
    a, b, l = ctx.vec("a", 2), ctx.vec("b", 2), ctx.vec("l", 3)
    la, lb, ll = tolist(a), tolist(b), tolist(l)
    ctx.assume(ctx.neg(ctx.conj([ctx.zero(la[0] - lb[0]), ctx.zero(la[1] - lb[1])])))
    ctx.assume(ctx.neg(ctx.conj([ctx.zero(ll[0]), ctx.zero(ll[1])])))
    with ctx.stubs():
        s1 = gs.Segment(geometer.Point(*a), geometer.Point(*b))
        res = s1.intersect(geometer.Line(l))
    fa = ll[0] * la[0] + ll[1] * la[1] + ll[2]
    fb = ll[0] * lb[0] + ll[1] * lb[1] + ll[2]
    # the line separates (or touches) the end points and is not the supporting line
    if ctx.symbolic:
        inside = ctx.conj([fa * fb <= 0, ctx.neg(ctx.conj([ctx.zero(fa), ctx.zero(fb)]))])
    else:
        inside = fa * fb <= 1e-9 and not (abs(fa) < 1e-9 and abs(fb) < 1e-9)
    ctx.ensure("at-most-one-point", len(res) <= 1)
    ctx.ensure("one-point<=>line-separates-the-end-points", ctx.iff(len(res) == 1, inside))
    if len(res) == 1:
        x = tolist(res[0].array)
        ctx.ensure("the-point-is-on-the-line", ctx.zero(dot(ll, x), scale=None if ctx.symbolic else 1.0))


@case("C18", "distinct.exhaustive", [], mode="field", oracle=False, functions=["geometer.utils.distinct"],
      assumptions=["exhaustive for sequences of length <= 5 over EVERY reflexive equality relation on the positions (also non-transitive ones)"])
def distinct_exhaustive(ctx):
    """utils.distinct: yields x iff no previously YIELDED element equals x; order preserved"""
    from geometer.utils import distinct

    bad = 0
    total = 0
    for n in range(0, 6):
        pairs = list(itertools.combinations(range(n), 2))
        for bits in itertools.product((False, True), repeat=len(pairs)):
            rel = {p: v for p, v in zip(pairs, bits)}

            class E:
                def __init__(self, i):
                    self.i = i

                def __eq__(self, o):
                    if self.i == o.i:
                        return True
                    return rel[(min(self.i, o.i), max(self.i, o.i))]

                __hash__ = None

            seq = [E(i) for i in range(n)]
            got = [e.i for e in distinct(seq)]
            want = []
            for i in range(n):
                if not any(rel[(j, i)] for j in want):
                    want.append(i)
            total += 1
            if got != want:
                bad += 1
    ctx.ensure("yields-exactly-the-first-representatives", bad == 0, sequences=total)


@case("C18", "intersections.lattice", [], kind="bounded",
      functions=["geometer.shapes.PolygonTensor.intersect", "geometer.shapes.Polyhedron.intersect", "geometer.shapes.SegmentTensor.intersect"],
      bound="2D: 3 convex lattice polygons x all lines through pairs of points of a 5x5 half-integer grid; 3D: unit-ish cuboids x lines through lattice point pairs, "
            "square in 3D x lines/segments (piercing, missing, parallel, in-plane)")
def intersections_lattice(ctx):
    import geometer as g
    from geometer.shapes import Polygon, Cuboid, Segment

    def inside_convex(vs, p, eps=1e-9):
        sgn = 0
        n = len(vs)
        for i in range(n):
            x1, y1 = vs[i]
            x2, y2 = vs[(i + 1) % n]
            cr = (x2 - x1) * (p[1] - y1) - (y2 - y1) * (p[0] - x1)
            if abs(cr) < eps:
                continue
            s = 1 if cr > 0 else -1
            if sgn == 0:
                sgn = s
            elif s != sgn:
                return False
        return True

    polys = [[(0, 0), (4, 0), (4, 3), (0, 3)], [(0, 0), (4, 1), (1, 4)], [(1, 0), (4, 2), (3, 4), (0, 3)]]
    grid = [(x / 2.0, y / 2.0) for x in range(-2, 10, 3) for y in range(-2, 10, 3)]
    for vs in polys:
        P = Polygon(*[g.Point(*v) for v in vs])
        for (p, q) in itertools.combinations(grid, 2):
            L = g.Line(g.Point(*p), g.Point(*q))
            pts = P.intersect(L)
            w = dict(polygon=vs, line=(p, q), got=[x.normalized_array.tolist() for x in pts])
            ok_on = all(abs(float(np.dot(L.array, x.normalized_array))) < 1e-7 * (1 + np.abs(L.array).max()) for x in pts)
            ok_in = all(inside_convex(vs, x.normalized_array[:2], 1e-6) for x in pts)
            ctx.ensure("2d:returned-points-lie-on-the-line-and-the-boundary", ok_on and ok_in, witness=w)
            # a transversal through the interior yields exactly two boundary points
            mids = [((1 - t) * p[0] + t * q[0], (1 - t) * p[1] + t * q[1]) for t in np.linspace(-6, 7, 261)]
            strictly = any(inside_convex(vs, m, -1e-9) and all(abs((vs[(i + 1) % len(vs)][0] - vs[i][0]) * (m[1] - vs[i][1]) - (vs[(i + 1) % len(vs)][1] - vs[i][1]) * (m[0] - vs[i][0])) > 1e-6
                                                                 for i in range(len(vs))) for m in mids)
            if strictly:
                ctx.ensure("2d:transversal-through-the-interior-yields-two-points", len(pts) == 2, witness=w)
            ctx.ensure("2d:no-duplicates", all(not (pts[i] == pts[j]) for i in range(len(pts)) for j in range(i)), witness=w)
    cube = Cuboid(g.Point(0, 0, 0), g.Point(2, 0, 0), g.Point(0, 2, 0), g.Point(0, 0, 2))
    lat = [(-1, -1, -1), (1, 1, 1), (3, 1, 1), (1, 0.5, 3), (0.5, 0.5, 0.5), (-1, 1, 1), (1, -1, 0.5), (3, 3, 3), (1, 1, -1), (-1, 0.5, 1.5),
           (-1, 1, 0), (1, -1, 0), (0, 0, -1), (0, 0, 3), (-1, -1, 1), (3, 3, 1)]  # the last six give lines through vertices/edges and in face planes
    for p, q in itertools.combinations(lat, 2):
        L = g.Line(g.Point(*p), g.Point(*q))
        pts = cube.intersect(L)
        w = dict(line=(p, q), got=[x.normalized_array.tolist() for x in pts])
        on_cube = all(all(-1e-7 <= c <= 2 + 1e-7 for c in x.normalized_array[:3]) and any(abs(c) < 1e-7 or abs(c - 2) < 1e-7 for c in x.normalized_array[:3]) for x in pts)
        ctx.ensure("3d:cuboid-points-on-the-surface", on_cube, witness=w)
        ctx.ensure("3d:cuboid-at-most-two-points", len(pts) <= 2, witness=w)
        ctx.ensure("3d:cuboid-line-no-duplicates", all(not (pts[i] == pts[j]) for i in range(len(pts)) for j in range(i)), witness=w)
        ts = np.linspace(-5, 6, 221)
        thru = any(all(1e-6 < (1 - t) * p[i] + t * q[i] < 2 - 1e-6 for i in range(3)) for t in ts)
        if thru:
            ctx.ensure("3d:line-through-the-interior-yields-two-points", len(pts) == 2, witness=w)
    # cuboid x single segment, including segments lying in the plane of a face (dependent faces are masked) and touching edges/vertices
    slat = lat + [(-1, 1, 0), (3, 1, 0), (0.5, 1, 0), (1.5, 1, 0), (3, 0.5, 0), (1, 1, 2), (0, 0, 1), (0, 3, 1), (2, 2, -1), (2, 2, 3)]
    slat = list(dict.fromkeys(slat))
    for p, q in itertools.combinations(slat, 2):
        w = dict(segment=(p, q))
        try:
            pts = cube.intersect(Segment(g.Point(*p), g.Point(*q)))
        except Exception as e:
            ctx.ensure("3d:cuboid-segment-no-exception", False, witness=dict(w, exception="%s: %s" % (type(e).__name__, e)))
            continue
        ctx.ensure("3d:cuboid-segment-no-exception", True, witness=w)
        w["got"] = [x.normalized_array.tolist() for x in pts]
        pa, qa = np.array(p, dtype=float), np.array(q, dtype=float)

        def on_seg(x):
            v = np.asarray(x.normalized_array[:3], dtype=float)
            t = np.dot(v - pa, qa - pa) / np.dot(qa - pa, qa - pa)
            return -1e-7 <= t <= 1 + 1e-7 and np.abs(pa + t * (qa - pa) - v).max() < 1e-6

        on_cube = all(all(-1e-7 <= c <= 2 + 1e-7 for c in x.normalized_array[:3]) and any(abs(c) < 1e-7 or abs(c - 2) < 1e-7 for c in x.normalized_array[:3]) for x in pts)
        ctx.ensure("3d:cuboid-segment-points-on-the-surface-and-the-segment", on_cube and all(on_seg(x) for x in pts), witness=w)
        ctx.ensure("3d:cuboid-segment-no-duplicates", all(not (pts[i] == pts[j]) for i in range(len(pts)) for j in range(i)), witness=w)
        strict_in = lambda v: all(1e-6 < c < 2 - 1e-6 for c in v)
        strict_out = lambda v: any(c < -1e-6 or c > 2 + 1e-6 for c in v)
        thru = any(strict_in(pa + t * (qa - pa)) for t in np.linspace(0, 1, 201))
        if strict_in(pa) and strict_in(qa):
            ctx.ensure("3d:cuboid-segment-inside-yields-nothing", len(pts) == 0, witness=w)
        elif thru and strict_out(pa) and strict_out(qa):
            ctx.ensure("3d:cuboid-segment-through-the-interior-yields-two-points", len(pts) == 2, witness=w)
        elif thru and (strict_in(pa) != strict_in(qa)) and (strict_out(pa) or strict_out(qa)):
            ctx.ensure("3d:cuboid-segment-leaving-the-interior-yields-one-point", len(pts) == 1, witness=w)
    # PolygonCollection x SegmentCollection, element by element: piercing, in-plane (dependent pair, masked), stopping short, missing
    from geometer.shapes import PolygonCollection, SegmentCollection
    sqz = lambda z: [[0, 0, z, 1], [2, 0, z, 1], [2, 2, z, 1], [0, 2, z, 1]]
    kinds = {"pierce": lambda z: ([1, 1, z - 1, 1], [1, 1, z + 1, 1], [(1, 1, z)]), "inplane": lambda z: ([-1, 1, z, 1], [3, 1, z, 1], []),
             "short": lambda z: ([1, 1, z - 2, 1], [1, 1, z - 0.5, 1], []), "miss": lambda z: ([3, 3, z - 1, 1], [3, 3, z + 1, 1], []),
             "touch": lambda z: ([0.5, 1.5, z, 1], [0.5, 1.5, z + 2, 1], [(0.5, 1.5, z)])}
    for combo in itertools.product(sorted(kinds), repeat=3):
        zs = (1, 2, 3)
        segs, want = [], []
        for kname, z in zip(combo, zs):
            a, b, wpts = kinds[kname](z)
            segs.append([a, b])
            want += wpts
        PC = PolygonCollection(np.array([sqz(z) for z in zs], dtype=float))
        SC = SegmentCollection(np.array(segs, dtype=float))
        for order in ("polygons.intersect(segments)", "segments.intersect(polygons)"):
            w = dict(kinds=combo, call=order)
            try:
                res = PC.intersect(SC) if order.startswith("polygons") else SC.intersect(PC)
                got = sorted(tuple(round(float(c), 6) + 0.0 for c in x.normalized_array[:3]) for r in res for x in (r if r.free_indices > 0 else [r]))
                ok = got == sorted(tuple(float(c) for c in pnt) for pnt in want)
                w["got"], w["want"] = got, want
            except Exception as e:
                ok = False
                w["exception"] = "%s: %s" % (type(e).__name__, e)
            ctx.ensure("3d:polygon-collection-x-segment-collection-elementwise", ok, witness=w)
    # a SINGLE 3D polygon against collections that contain an element in the plane of the polygon (dependent element, masked)
    from geometer.shapes import SegmentCollection as _SC
    sq0 = Polygon(g.Point(0, 0, 1), g.Point(2, 0, 1), g.Point(2, 2, 1), g.Point(0, 2, 1))
    segs = {"pierce": ([1, 1, 0, 1], [1, 1, 2, 1], [(1, 1, 1)]), "inplane": ([-1, 1, 1, 1], [3, 1, 1, 1], []), "short": ([0.5, 0.5, 0, 1], [0.5, 0.5, 0.5, 1], []),
            "miss": ([3, 3, 0, 1], [3, 3, 2, 1], []), "pierce2": ([0.5, 1.5, 3, 1], [0.5, 1.5, -1, 1], [(0.5, 1.5, 1)])}
    for combo in itertools.permutations(sorted(segs), 3):
        want = sorted(tuple(float(c) for c in p) for k in combo for p in segs[k][2])
        arr = np.array([[segs[k][0], segs[k][1]] for k in combo], dtype=float)
        for what in ("polygon.intersect(segments)", "segments.intersect(polygon)", "polygon.intersect(lines)"):
            w = dict(kinds=combo, call=what)
            try:
                if what == "polygon.intersect(lines)":
                    res = sq0.intersect(g.LineCollection([g.Line(g.Point(a), g.Point(b)).array for a, b in arr]))
                    wantl = sorted(tuple(float(c) for c in p) for k in combo for p in (segs[k][2] if k != "short" else [(0.5, 0.5, 1)]))
                    got = sorted(tuple(round(float(c), 6) + 0.0 for c in x.normalized_array[:3]) for r in res for x in (r if r.free_indices > 0 else [r]))
                    ok = got == wantl
                else:
                    res = sq0.intersect(_SC(arr)) if what.startswith("polygon") else _SC(arr).intersect(sq0)
                    got = sorted(tuple(round(float(c), 6) + 0.0 for c in x.normalized_array[:3]) for r in res for x in (r if r.free_indices > 0 else [r]))
                    ok = got == want
                w["got"] = got
            except Exception as e:
                ok = False
                w["exception"] = "%s: %s" % (type(e).__name__, str(e)[:100])
            ctx.ensure("3d:single-polygon-x-collection-with-a-coplanar-element", ok, witness=w)
    # a SINGLE line / segment in the plane of a SINGLE 3D polygon: no exception (collections skip such elements) and no point off the operands
    for (a_, b_) in (((-1, 1, 1), (3, 1, 1)), ((0, 0, 1), (2, 2, 1)), ((5, 5, 1), (6, 7, 1)), ((0, 0, 1), (2, 0, 1)), ((1, 1, 1), (1, 1.5, 1))):
        for what in ("line", "segment"):
            o = g.Line(g.Point(*a_), g.Point(*b_)) if what == "line" else Segment(g.Point(*a_), g.Point(*b_))
            w = dict(polygon="square (0,0,1)..(2,2,1)", other=what, through=(a_, b_))
            try:
                res = sq0.intersect(o)
                coll = sq0.intersect(g.LineCollection([o.array]) if what == "line" else _SC(np.array([o.array])))
                ok = all(bool(sq0.contains(x)) and bool(o.contains(x)) for x in res) and len(res) == sum(np.asarray(r.array).size // 4 for r in coll)
                w["got"] = [np.asarray(x.array).tolist() for x in res]
            except Exception as e:
                ok = False
                w["exception"] = "%s: %s" % (type(e).__name__, str(e)[:100])
            ctx.ensure("3d:single-polygon-x-single-coplanar-line/segment:no-exception-no-spurious-points", ok, witness=w)
    sq = Polygon(g.Point(0, 0, 1), g.Point(2, 0, 1), g.Point(2, 2, 1), g.Point(0, 2, 1))
    for (p, q, want) in [((1, 1, 0), (1, 1, 2), 1), ((3, 3, 0), (3, 3, 2), 0), ((0, 0, 0), (2, 2, 2), 1), ((1, 1, 2), (1, 2, 3), 1), ((5, 5, 0), (6, 5, 0), 0),
                         ((0, 0, 0), (1, 0, 0), 0), ((0.5, 0.5, 0), (0.5, 0.5, 5), 1), ((2, 1, 0), (2, 1, 3), 1)]:
        L = g.Line(g.Point(*p), g.Point(*q))
        pts = sq.intersect(L)
        ctx.ensure("3d:polygon-pierced-once-or-missed", len(pts) == want, witness=dict(line=(p, q), want=want, got=[x.normalized_array.tolist() for x in pts]))
        S = Segment(g.Point(*p), g.Point(*q))
        pts = sq.intersect(S)
        hit = want == 1 and min(p[2], q[2]) <= 1 <= max(p[2], q[2])
        ctx.ensure("3d:polygon-segment", len(pts) == (1 if hit else 0), witness=dict(segment=(p, q), got=[x.normalized_array.tolist() for x in pts]))

"""sidecar contracts for jan-mue/geometer, one module per group of properties"""

# property -> contract modules that register cases for it
INDEX = {
    "C01": ["c01", "c04"],
    "C02": ["c01"],
    "C03": ["c03", "c20", "c16", "c11", "c09", "c17", "c08", "c13"],
    "C04": ["c04", "c06"],
    "C05": ["c05"],
    "C06": ["c06"],
    "C07": ["c06", "c04"],
    "C08": ["c08"],
    "C09": ["c09"],
    "C10": ["c10", "c04"],
    "C11": ["c11"],
    "C13": ["c13"],
    "C14": ["c13"],
    "C15": ["c13"],
    "C16": ["c16"],
    "C17": ["c17"],
    "C18": ["c17"],
    "C19": ["c19"],
    "C20": ["c20"],
}

"""sidecar contracts for jan-mue/geometer, one module per group of properties"""

# property -> contract modules that register cases for it
INDEX = {
    "C01": ["c01", "c04", "cnum"],
    "C02": ["c01", "cnum"],
    "C03": ["c03", "c20", "c16", "c11", "c09", "c17", "c08", "c13", "cnum"],
    "C04": ["c04", "c06"],
    "C05": ["c05"],
    "C06": ["c06", "cnum"],
    "C07": ["c06", "c04", "cnum"],
    "C08": ["c08", "cnum"],
    "C09": ["c09", "cnum"],
    "C10": ["c10", "c04", "cnum"],
    "C11": ["c11", "cnum"],
    "C13": ["c13", "cnum"],
    "C14": ["c13", "cnum"],
    "C15": ["c13", "cnum"],
    "C16": ["c16", "cnum"],
    "C17": ["c17", "cnum"],
    "C18": ["c17"],
    "C19": ["c19", "cnum"],
    "C20": ["c20", "cnum"],
}

"""C03: results depend on the projective object, not on its representative.

Most evidence for C03 comes from the contracts of the other properties, which are stated for ARBITRARY homogeneous
representatives against representative-free specifications (C01 join/meet, C11 cross ratio in pencil parameters,
C16 segment/triangle membership with symbolic scale factors, C20 is_multiple).  This module adds the contracts of
projective equality itself and relational (two-run) contracts  f(lambda * x) ~ f(x)."""
from __future__ import annotations

import itertools

import numpy as np

from gvc.harness import case, names
from contracts import geo
from contracts.geo import dot, tolist


def _g():
    import geometer

    return geometer


@case("C03", "eq.projective.point", names("p", 3) + names("q", 3) + ["k"], mode="field", functions=["geometer.base.ProjectiveTensor.__eq__", "geometer.utils.math.is_multiple"],
      max_paths=600)
def eq_point(ctx):
    """the real __eq__ on the real is_multiple body: x == k x, symmetry, false unless all 2x2 minors vanish"""
    geometer = _g()
    p, q, k = ctx.vec("p", 3), ctx.vec("q", 3), ctx.sym("k")
    ctx.assume(ctx.neg(ctx.zero(k)))
    P, Q = geometer.Point(p), geometer.Point(q)
    r1 = P == geometer.Point(k * p)
    ctx.ensure("x==k*x", r1 is True or (ctx.symbolic and bool(r1)) or bool(r1))
    r2 = P == P
    ctx.ensure("reflexive", bool(r2))
    a, b = (P == Q), (Q == P)
    ctx.ensure("symmetric", bool(a) == bool(b))
    ctx.ensure("equal=>proportional", ctx.implies(bool(a), ctx.minors_zero(p, q)))
    ctx.ensure("proportional=>equal", ctx.implies(ctx.minors_zero(p, q), bool(a)))


@case("C03", "eq.projective.line3d.quadric", names("a", 4) + names("b", 4) + ["k", "m00", "m01", "m02", "m11", "m12", "m22"], mode="field",
      functions=["geometer.base.ProjectiveTensor.__eq__"], max_paths=600)
def eq_higher_rank(ctx):
    """== on rank-2 objects (3D line tensors, quadrics) with the verified is_multiple contract as stub"""
    geometer = _g()
    from contracts.c01 import _line_pp, dependent

    a, b, k = ctx.vec("a", 4), ctx.vec("b", 4), ctx.sym("k")
    ctx.assume(ctx.neg(ctx.zero(k)))
    ctx.assume(ctx.neg(dependent(ctx, [a, b])))
    with ctx.stubs():
        l = _line_pp(ctx, geometer, a, b)
        l2 = _line_pp(ctx, geometer, k * a, b)
        ctx.ensure("line==line-through-rescaled-generator", bool(l == l2))
        l3 = _line_pp(ctx, geometer, a + 2 * b, b - a)
        ctx.ensure("line==line-through-other-generators", bool(l == l3))
        M = np.empty((3, 3), dtype=object if ctx.symbolic else float)
        for i in range(3):
            for j in range(3):
                M[i, j] = ctx.sym("m%d%d" % (min(i, j), max(i, j)))
        q1, q2 = geometer.Quadric(M), geometer.Quadric(k * M)
        ctx.ensure("quadric==k*quadric", bool(q1 == q2))


def _relational(name, symbols, build, op, compare, mode="field", **kw):
    @case("C03", "relational.%s" % name, symbols + ["k"], mode=mode, functions=kw.pop("functions", []), **kw)
    def _(ctx):
        geometer = _g()
        k = ctx.sym("k")
        ctx.assume(ctx.neg(ctx.zero(k)))
        args = build(ctx, geometer)
        with ctx.stubs():
            base = op(geometer, *args)
        for pos in range(len(args)):
            scaled = list(args)
            scaled[pos] = type(args[pos])(k * args[pos].array)
            with ctx.stubs():
                r = op(geometer, *scaled)
            ctx.ensure("scale-invariant-in-argument-%d" % pos, compare(ctx, base, r))


def _same_obj(ctx, x, y):
    return ctx.conj([type(x) is type(y), ctx.minors_zero(x.array, y.array)])


def _same_bool(ctx, x, y):
    if ctx.symbolic:
        return ctx.iff(ctx.conj([x]), ctx.conj([y]))
    return bool(np.all(x == y))


_relational("join.2d", names("p", 3) + names("q", 3), lambda ctx, g: [g.Point(ctx.vec("p", 3)), g.Point(ctx.vec("q", 3))],
            lambda g, p, q: g.join(p, q, _check_dependence=False), _same_obj, functions=["geometer.point.join"])
_relational("meet.3d.EE", names("p", 4) + names("q", 4), lambda ctx, g: [g.Plane(ctx.vec("p", 4)), g.Plane(ctx.vec("q", 4))],
            lambda g, p, q: g.meet(p, q, _check_dependence=False), _same_obj, functions=["geometer.point.meet"])
_relational("contains.2d", names("p", 3) + names("q", 3), lambda ctx, g: [g.Line(ctx.vec("p", 3)), g.Point(ctx.vec("q", 3))],
            lambda g, l, p: l.contains(p), _same_bool, functions=["geometer.point.SubspaceTensor.contains"])
_relational("contains.3d", names("p", 4) + names("q", 4), lambda ctx, g: [g.Plane(ctx.vec("p", 4)), g.Point(ctx.vec("q", 4))],
            lambda g, l, p: l.contains(p), _same_bool, functions=["geometer.point.SubspaceTensor.contains"])
_relational("is_collinear", names("p", 3) + names("q", 3) + names("r", 3), lambda ctx, g: [g.Point(ctx.vec(n, 3)) for n in "pqr"],
            lambda g, p, q, r: __import__("geometer.operators", fromlist=["x"]).is_collinear(p, q, r), _same_bool, functions=["geometer.operators.is_coplanar"])
_relational("quadric.contains", names("p", 3) + ["m00", "m01", "m02", "m11", "m12", "m22"],
            lambda ctx, g: [g.Quadric(np.array([[ctx.sym("m%d%d" % (min(i, j), max(i, j))) for j in range(3)] for i in range(3)], dtype=object if ctx.symbolic else float)),
                            g.Point(ctx.vec("p", 3))],
            lambda g, q, p: q.contains(p), _same_bool, functions=["geometer.curve.QuadricTensor.contains"])


# ------------------------------------------------------------------------------------------------ bounded stand-in


@case("C03", "polygon.contains.representatives", [], kind="bounded", functions=["geometer.shapes.PolygonTensor.contains"],
      bound="5 lattice polygons (convex, dart, L-shape, triangle, quad) x 6 scale patterns over {1,-1,2,-3,1/2} x 13x13 half-integer query grid x 2 query scales")
def polygon_representatives(ctx):
    """bounded: PolygonTensor.contains is unchanged when vertices and query point are rescaled by non-zero factors"""
    import geometer as g
    from geometer.shapes import Polygon
    import random

    rnd = random.Random(7)
    polys = [
        [(0, 0), (4, 0), (4, 4), (2, 1), (0, 4)],
        [(0, 0), (4, 0), (4, 3), (0, 3)],
        [(0, 0), (4, 0), (4, 2), (2, 2), (2, 4), (0, 4)],
        [(0, 0), (4, 1), (1, 4)],
        [(1, 0), (4, 2), (3, 4), (0, 3)],
    ]
    grid = [x / 2 for x in range(-2, 11)]
    for vs in polys:
        P = Polygon(*[g.Point(*v) for v in vs])
        ref = {(x, y): bool(P.contains(g.Point(x, y))) for x in grid for y in grid}
        for trial in range(6):
            sc = [rnd.choice([1, -1, 2, -3, 0.5]) for _ in vs]
            P2 = Polygon(*[g.Point(np.array([v[0], v[1], 1.0]) * s) for v, s in zip(vs, sc)])
            for (x, y), want in ref.items():
                for qs in (1.0, -2.0):
                    got = bool(P2.contains(g.Point(np.array([x, y, 1.0]) * qs)))
                    ctx.ensure("contains-independent-of-representatives", got == want,
                               witness=dict(vertices=vs, vertex_scales=sc, query=(x, y), query_scale=qs, expected=want, got=got))

"""Bounded numeric stand-ins shared by several properties: dtypes (integer / float / complex64 / complex128), magnitudes (coordinates ~1e3 .. 1e5,
small homogeneous representatives) and tolerance handling.  The idealised arithmetic of the symbolic cases (IEEE = exact field arithmetic, tolerances = 0)
cannot see any of this; every clause here has an exact (rational or closed-form) oracle."""
from __future__ import annotations

import itertools
import math
import random
from fractions import Fraction

import numpy as np

from gvc.harness import case


def _frac(x):
    x = complex(x)
    return (Fraction(x.real), Fraction(x.imag))


def _cdot(u, v):
    """exact complex dot product of two vectors of float/complex entries"""
    re, im = Fraction(0), Fraction(0)
    for a, b in zip(u, v):
        (ar, ai), (br, bi) = _frac(a), _frac(b)
        re += ar * br - ai * bi
        im += ar * bi + ai * br
    return re, im


def _small(u, v, rel):
    """|u.v| <= rel * |u| |v| (float evaluation of the exactly representable inputs)"""
    u, v = np.asarray(u, dtype=complex), np.asarray(v, dtype=complex)
    return abs(np.sum(u * v)) <= rel * max(np.abs(u).max(), 1e-300) * max(np.abs(v).max(), 1e-300) * len(u)


@case("C01", "join.meet.dtypes.lattice", [], kind="bounded", also=("C02",), share=True,
      functions=["geometer.point._join_meet_duality", "geometer.point._divide_by_power_of_two", "geometer.base.Tensor.is_zero"],
      bound="join / meet of points, lines and planes (2D and 3D, all arities) whose coordinates are given as int64, float32, float64, complex64 and complex128 arrays "
            "(lattice values, also ~60000 for integers): incidence of the result with its arguments to the precision of the dtype, round trip meet(join(p,q), join(p,r)) == p, "
            "no exception in general position; exactly dependent inputs with long-mantissa dyadic coordinates raise LinearDependenceError; all-pairs join / meet of a 3- and a 2-element collection "
            "through expand_dims (3 axis choices, 2D and 3D) against the single results")
def join_meet_dtypes(ctx):
    import geometer as g
    from geometer import exceptions as ex

    rnd = random.Random(21)
    dtypes = [(np.int64, 1e-12), (np.float32, 1e-5), (np.float64, 1e-12), (np.complex64, 1e-5), (np.complex128, 1e-12)]

    def vec(n, dt, big=False):
        hi = 60000 if big else 4
        v = [rnd.randint(-hi, hi) for _ in range(n - 1)] + [rnd.choice([1, 2, -1, 3])]
        if np.issubdtype(dt, np.complexfloating):
            v = [complex(a, rnd.randint(-3, 3)) for a in v]
        return np.array(v, dtype=dt)

    def rank(vs):
        return np.linalg.matrix_rank(np.array([np.asarray(v, dtype=complex) for v in vs]))

    for dt, rel in dtypes:
        for big in (False, True):
            if big and dt is not np.int64:
                continue
            for _ in range(25):
                w = dict(dtype=np.dtype(dt).name, big=big)
                # 2D
                p, q, r = vec(3, dt, big), vec(3, dt, big), vec(3, dt, big)
                if rank([p, q, r]) < 3:
                    continue
                try:
                    l = g.join(g.Point(p), g.Point(q))
                    ok = _small(l.array, p, rel) and _small(l.array, q, rel) and np.abs(l.array).max() > 0
                    x = g.meet(g.Line(p), g.Line(q))
                    ok = ok and _small(x.array, p, rel) and _small(x.array, q, rel) and np.abs(x.array).max() > 0
                    back = g.meet(g.join(g.Point(p), g.Point(q)), g.join(g.Point(p), g.Point(r)))
                    ok = ok and rank([back.array, p]) == 1
                except ex.GeometryException as e:
                    ok = False
                    w["exception"] = type(e).__name__
                ctx.ensure("2d:incidence-and-round-trip-for-every-dtype", ok, witness=dict(w, p=str(p.tolist()), q=str(q.tolist()), r=str(r.tolist())))
                # 3D
                P = [vec(4, dt, big) for _ in range(4)]
                if rank(P) < 4:
                    continue
                try:
                    e3 = g.join(*[g.Point(v) for v in P[:3]])
                    ok = all(_small(e3.array, v, rel) for v in P[:3]) and np.abs(e3.array).max() > 0
                    x3 = g.meet(*[g.Plane(v) for v in P[:3]])
                    ok = ok and all(_small(x3.array, v, rel) for v in P[:3]) and np.abs(x3.array).max() > 0
                    ln = g.join(g.Point(P[0]), g.Point(P[1]))
                    ok = ok and bool(ln.contains(g.Point(P[0]), tol=1e-3 if rel > 1e-8 else 1e-8)) and bool(ln.contains(g.Point(P[1]), tol=1e-3 if rel > 1e-8 else 1e-8))
                    back = g.meet(g.join(g.Point(P[0]), g.Point(P[1])), g.join(g.Point(P[0]), g.Point(P[2]), g.Point(P[3])))
                    ok = ok and np.linalg.matrix_rank(np.array([np.asarray(back.array, dtype=complex), np.asarray(P[0], dtype=complex)]), tol=1e-3 if rel > 1e-8 else 1e-9) == 1
                except ex.GeometryException as e:
                    ok = False
                    w["exception"] = type(e).__name__
                ctx.ensure("3d:incidence-and-round-trip-for-every-dtype", ok, witness=dict(w, points=str([v.tolist() for v in P])))
    # integer coordinates whose products reach 2**31 .. 2**33 (squares of the result entries do not fit int64): general position must not raise
    for a_ in (3, 1000, 46341, 55000, 60000, 65535, 65536, 92682):
        for dt in (np.int64, np.int32 if a_ < 40000 else np.int64):
            w = dict(a=a_, dtype=np.dtype(dt).name)
            try:
                x = g.meet(g.Line(np.array([a_, 1, 0], dtype=dt)), g.Line(np.array([1, a_, 0], dtype=dt)))
                l = g.join(g.Point(np.array([a_, 1, 0], dtype=dt)), g.Point(np.array([1, a_, 0], dtype=dt)))
                e = g.meet(g.Plane(np.array([a_, 1, 0, 0], dtype=dt)), g.Plane(np.array([1, a_, 0, 0], dtype=dt)), g.Plane(np.array([0, 0, 1, 0], dtype=dt)))
                ok = rank([x.array, [0, 0, 1]]) == 1 and rank([l.array, [0, 0, 1]]) == 1 and rank([e.array, [0, 0, 0, 1]]) == 1
                pc = g.PointCollection(np.array([[a_, 1, 0], [1, 2, 1]], dtype=dt))
                qc = g.PointCollection(np.array([[1, a_, 0], [3, 1, 1]], dtype=dt))
                lc = g.join(pc, qc)
                ok = ok and lc.shape == (2, 3)
            except ex.GeometryException as err:
                ok = False
                w["exception"] = type(err).__name__
            ctx.ensure("integer-coordinates-with-large-products:general-position-does-not-raise", ok, witness=w)
    # exactly dependent float inputs with long mantissas: a, a + d, a + 2d (all sums exact in double precision)
    for _ in range(60):
        a = np.array([rnd.randint(-2 ** 20, 2 ** 20) / 2.0 ** rnd.randint(17, 20) for _ in range(3)])  # |a| <= 8, 20-bit mantissas
        d = np.array([rnd.randint(-2 ** 12, 2 ** 12) / 2.0 ** rnd.randint(10, 12) for _ in range(3)])  # |d| <= 4
        if not np.any(d):
            continue
        pts = [a, a + d, a + 2 * d]
        exact = all(Fraction(float(pts[k][i])) == Fraction(float(a[i])) + k * Fraction(float(d[i])) for k in range(3) for i in range(3))
        if not exact:
            continue
        P3 = [g.Point(*v) for v in pts]
        w = dict(a=a.tolist(), d=d.tolist())
        for name, th in (("join(a, a+d, a+2d)", lambda: g.join(*P3)), ("join(join(a, a+d), a+2d)", lambda: g.join(g.join(P3[0], P3[1]), P3[2])),
                         ("meet(join(a,a+d), join(a+d,a+2d))", lambda: g.meet(g.join(P3[0], P3[1]), g.join(P3[1], P3[2])))):
            try:
                th()
                got = "returned"
            except ex.LinearDependenceError:
                got = "LinearDependenceError"
            except ex.GeometryException as e:
                got = type(e).__name__
            ctx.ensure("exactly-collinear-long-mantissa-points-raise-LinearDependenceError", got == "LinearDependenceError", witness=dict(w, call=name, got=got))
        # coincident objects given by different representatives (factors that round)
        for s in (3.0, -3.0, 0.7, -2.3, 7.0):
            l = g.join(P3[0], g.Point(*(a + np.array([1.0, 2.0, 0.5]))))
            e = g.Plane(a[0], a[1], a[2], 1.0)
            for name, th in (("meet(e, s*e)", lambda: g.meet(e, g.Plane(s * e.array))), ("join(p, s*p, q)", lambda: g.join(P3[0], g.Point(s * P3[0].array), P3[1]))):
                try:
                    th()
                    got = "returned"
                except ex.LinearDependenceError:
                    got = "LinearDependenceError"
                except ex.GeometryException as err:
                    got = type(err).__name__
                ctx.ensure("coincident-objects-in-other-representatives-raise-LinearDependenceError", got == "LinearDependenceError", witness=dict(w, call=name, factor=s, got=got))
    # the all-pairs idiom: join(A.expand_dims(1), B.expand_dims(0))[i, j] ~ join(A[i], B[j]) (an inserted axis anywhere among the collection axes)
    def proj_same(x, y):
        x, y = np.asarray(x, dtype=complex).reshape(-1), np.asarray(y, dtype=complex).reshape(-1)
        return np.linalg.matrix_rank(np.array([x / np.abs(x).max(), y / np.abs(y).max()]), tol=1e-9) == 1

    for dim in (2, 3):
        A = g.PointCollection(np.array([[1, 2, 1], [0, -1, 1], [3, 1, 2]] if dim == 2 else [[1, 2, 0, 1], [0, -1, 2, 1], [3, 1, 1, 2]], dtype=float))
        B = g.PointCollection(np.array([[-2, 1, 1], [4, 4, 1]] if dim == 2 else [[-2, 1, 5, 1], [4, 4, -1, 1]], dtype=float))
        for ax_a, ax_b in ((1, 0), (-2, 0), (1, -3)):
            w = dict(dim=dim, axes=(ax_a, ax_b))
            try:
                R = g.join(A.expand_dims(ax_a), B.expand_dims(ax_b))
                ok = R.shape[:2] == (3, 2) and all(proj_same(R.array[i, j], g.join(A[i], B[j]).array) for i in range(3) for j in range(2))
                HA = g.PlaneCollection(A.array) if dim == 3 else g.LineCollection(A.array)
                HB = g.PlaneCollection(B.array) if dim == 3 else g.LineCollection(B.array)
                M = g.meet(HA.expand_dims(ax_a), HB.expand_dims(ax_b))
                ok = ok and M.shape[:2] == (3, 2) and all(proj_same(M.array[i, j], g.meet(HA[i], HB[j]).array) for i in range(3) for j in range(2))
            except Exception as err:
                ok = False
                w["exception"] = "%s: %s" % (type(err).__name__, str(err)[:100])
            ctx.ensure("all-pairs-join/meet-through-expand_dims==single-results", ok, witness=w, prop=("C01",))


@case("C09", "metric.magnitudes.lattice", [], kind="bounded", also=("C10", "C11"), share=True,
      functions=["geometer.operators.angle", "geometer.operators.dist", "geometer.operators.crossratio", "geometer.operators.is_perpendicular", "geometer.point.SubspaceTensor.is_parallel",
                 "geometer.operators.is_cocircular", "geometer.operators.harmonic_set"],
      bound="configurations of size ~1e-2 .. 1 at positions ~1e3 .. 3e4 from the origin (and the same at the origin): angles of small triangles, distances, cross ratios of closely spaced points, "
            "nearly (1e-5 rad) versus exactly perpendicular / parallel lines and planes, collections with one stray element; closed-form oracles")
def metric_magnitudes(ctx):
    import geometer as g
    from geometer import operators as go
    from geometer import exceptions as ex

    origins2 = [(0.0, 0.0), (1000.0, 2000.0), (-3000.0, 500.0), (30000.0, -30000.0)]
    for o in origins2:
        for size in (1.0, 0.004):
            w = dict(origin=o, size=size)
            a, b, c = g.Point(o[0], o[1]), g.Point(o[0] + size, o[1]), g.Point(o[0] + size, o[1] + size)
            if abs(o[0]) < 5000 or size >= 1:
                ang = float(go.angle(a, b, c))
                ctx.ensure("angle-of-a-small-triangle-far-from-the-origin==pi/4", abs(abs(ang) - math.pi / 4) < 1e-4, witness=dict(w, got=ang))
                ctx.ensure("dist-far-from-the-origin", abs(float(go.dist(a, c)) - size * math.sqrt(2)) < 1e-6 * size + 1e-9, witness=dict(w, got=float(go.dist(a, c))))
            if size >= 1 or abs(o[0]) <= 3000:
                pts = [g.Point(o[0] + k * size * 2.5, o[1] + k * size * 2.5) for k in (0, 1, 2, 3)]
                cr = complex(go.crossratio(*pts))
                ctx.ensure("crossratio-of-closely-spaced-points-far-from-the-origin==4/3", abs(cr - 4 / 3) < 1e-4, witness=dict(w, got=str(cr)))
    # integer coordinates: the brackets are integers whose products do not fit int64
    for k in (1, 10, 1000, 3000):
        pts = [g.Point(1 * k, 2 * k), g.Point(2 * k, 5 * k), g.Point(3 * k, 8 * k), g.Point(4 * k, 11 * k)]
        try:
            cr = complex(go.crossratio(*pts))
            ok = abs(cr - 4 / 3) < 1e-9
        except ex.GeometryException as err:
            ok, cr = False, type(err).__name__
        ctx.ensure("crossratio-of-integer-points==4/3", ok, witness=dict(scale=k, got=str(cr)), prop=("C11",))
    # perpendicular / parallel decisions: exact cases, clearly wrong cases and cases 1e-5 rad off, near and far from the origin
    for o in origins2:
        for th in (0.0, 0.3, 1.2, 2.5):
            d1 = (math.cos(th), math.sin(th))
            for delta, expect in ((0.0, True), (1e-5, False), (0.3, False)):
                d2 = (math.cos(th + math.pi / 2 + delta), math.sin(th + math.pi / 2 + delta))
                l = g.Line(g.Point(*o), g.Point(o[0] + 7 * d1[0], o[1] + 7 * d1[1]))
                m = g.Line(g.Point(o[0] + 1, o[1] - 2), g.Point(o[0] + 1 + 5 * d2[0], o[1] - 2 + 5 * d2[1]))
                if abs(o[0]) > 5000 and delta == 1e-5:
                    continue  # beyond the resolution of the tolerance at this distance: not claimed
                ctx.ensure("is_perpendicular-2d:exact/near/far", bool(go.is_perpendicular(l, m)) == expect, witness=dict(origin=o, theta=th, delta=delta, expect=expect))
            for delta, expect in ((0.0, True), (1e-3, False), (0.4, False), (math.pi / 2, False)):
                d2 = (math.cos(th + delta), math.sin(th + delta))
                l = g.Line(g.Point(*o), g.Point(o[0] + 7 * d1[0], o[1] + 7 * d1[1]))
                m = g.Line(g.Point(o[0] + 1, o[1] - 2), g.Point(o[0] + 1 + 5 * d2[0], o[1] - 2 + 5 * d2[1]))
                if abs(o[0]) > 5000:
                    continue  # lines this far away are reported dependent by the tolerance of the zero test (outside the claimed range)
                try:
                    got = bool(l.is_parallel(m))
                except ex.GeometryException as e:
                    got = type(e).__name__
                ctx.ensure("is_parallel-2d:exact/near/far", got == expect, witness=dict(origin=o, theta=th, delta=delta, expect=expect, got=got))
    for o in [(0.0, 0.0, 0.0), (100.0, -200.0, 50.0), (1000.0, -2000.0, 500.0)]:
        e = g.Plane(g.Point(*o), g.Point(o[0] + 1, o[1], o[2]), g.Point(o[0], o[1] + 1, o[2] + 1))
        f = g.Plane(g.Point(*o), g.Point(o[0] + 1, o[1], o[2]), g.Point(o[0], o[1] + 1, o[2] - 1))  # perpendicular to e
        h = g.Plane(g.Point(o[0], o[1], o[2] + 3), g.Point(o[0] + 1, o[1], o[2] + 3), g.Point(o[0], o[1] + 1, o[2] + 4))  # parallel to e
        k = g.Plane(g.Point(*o), g.Point(o[0] + 1, o[1], o[2]), g.Point(o[0], o[1] + 1, o[2] + 0.5))
        try:
            got = (bool(go.is_perpendicular(e, f)), bool(go.is_perpendicular(e, k)), bool(e.is_parallel(h)), bool(e.is_parallel(f)), bool(e.is_parallel(k)))
        except ex.GeometryException as err:
            got = type(err).__name__
        ctx.ensure("planes:perpendicular/parallel-far-from-the-origin", got == (True, False, True, False, False), witness=dict(origin=o, got=got))
    # collections with ONE stray element must raise (element by element check), whichever position the stray argument has
    base = [[(0, 0), (1, 1), (2, 2), (3, 3)], [(1, 0), (2, 1), (3, 2), (5, 4)], [(0, 2), (2, 2), (3, 2), (7, 2)]]
    for pos in range(4):
        for k in range(3):
            quads = [list(q) for q in base]
            quads[k][pos] = (quads[k][pos][0], quads[k][pos][1] + 1)
            args = [g.PointCollection([list(q[j]) + [1] for q in quads]) for j in range(4)]
            try:
                go.crossratio(*args)
                got = "returned"
            except ex.NotCollinear:
                got = "NotCollinear"
            except ex.GeometryException as err:
                got = type(err).__name__
            ctx.ensure("crossratio(collections)-with-one-stray-element-raises-NotCollinear", got == "NotCollinear", witness=dict(stray_argument=pos, element=k, got=got))
            largs = [g.LineCollection([list(q[j]) + [1] for q in quads]) for j in range(4)]
            try:
                go.crossratio(*largs)
                got = "returned"
            except ex.NotConcurrent:
                got = "NotConcurrent"
            except ex.GeometryException as err:
                got = type(err).__name__
            ctx.ensure("crossratio(line-collections)-with-one-stray-element-raises-NotConcurrent", got == "NotConcurrent", witness=dict(stray_argument=pos, element=k, got=got))


@case("C06", "transformation.classes.dtypes.lattice", [], kind="bounded", also=("C07", "C08"), share=True,
      functions=["geometer.transformation.TransformationTensor.__apply__", "geometer.transformation.TransformationTensor.inverse", "geometer.utils.math.inv",
                 "geometer.transformation.Transformation.from_points"],
      bound="composition s*t for every single/collection combination (class and values), integer-dtype collections of 63/64/70 translations and shears (inverse, t**-1, action on lines), "
            "from_points on frames of spacing 1e-4 (2D) / 2e-3 (3D) and on frames with a common homogeneous factor 1e-3")
def transformation_classes_dtypes(ctx):
    import geometer as g
    from geometer.transformation import Transformation, TransformationCollection, translation, rotation, scaling

    s1, t1 = rotation(0.3) * translation(1, 2), Transformation(np.array([[2.0, 1, 1], [0, 3, -1], [0, 0, 1]]))
    sc = TransformationCollection([s1.array, t1.array, translation(-1, 4).array])
    tc = TransformationCollection([t1.array, s1.array, scaling(2, 3).array])
    p = g.Point(1, -2)
    pc = g.PointCollection([[1, -2, 1], [0, 3, 1], [2, 2, 1]])
    for (a, b, want_cls, n) in [(s1, t1, Transformation, 0), (sc, t1, TransformationCollection, 3), (s1, tc, TransformationCollection, 3), (sc, tc, TransformationCollection, 3)]:
        w = dict(left=type(a).__name__, right=type(b).__name__)
        try:
            ab = a * b
            ok = type(ab) is want_cls and ab.shape == ((n, 3, 3) if n else (3, 3))
            x = pc if n else p
            ok = ok and (ab * x) == (a * (b * x)) and (ab ** 0) * x == x
            A, B = np.asarray(a.array, dtype=float), np.asarray(b.array, dtype=float)
            ok = ok and np.allclose(np.asarray(ab.array, dtype=float), A @ B)
        except Exception as e:
            ok = False
            w["exception"] = "%s: %s" % (type(e).__name__, str(e)[:100])
        ctx.ensure("composition:class-and-value-for-every-single/collection-mix", ok, witness=w)
    # a regular projective map may have a zero in its corner (it sends the origin to infinity): composition must not normalise by that entry
    sp = Transformation(np.array([[1.0, 0, 0], [0, 1, 0], [1, 0, 1]]))
    for tt in (translation(-1, 0), translation(-1, 3), rotation(0.4) * translation(-1, 0)):
        w = dict(right=np.asarray(tt.array).round(3).tolist())
        try:
            st = sp * tt
            xs = [g.Point(2, 1), g.Point(-3, 0.5), g.Point(0, 0)]
            ok = np.all(np.isfinite(np.asarray(st.array, dtype=float))) and all((st * x) == (sp * (tt * x)) for x in xs) and all(st.inverse() * (st * x) == x for x in xs)
            l = g.Line(1, 2, -3)
            ok = ok and (st * l) == (sp * (tt * l))
        except Exception as e:
            ok = False
            w["exception"] = "%s: %s" % (type(e).__name__, str(e)[:100])
        ctx.ensure("composition-of-maps-whose-product-has-a-zero-corner-entry", ok, witness=w)
    # identities are fresh objects: editing one in place must not change the next one
    from geometer.transformation import identity
    for dim in (2, 3):
        t0 = Transformation(np.eye(dim + 1) * 2.0 + np.diag(np.arange(dim + 1.0)))
        e0 = t0 ** 0
        e0[0, 1] = 4.0
        i1 = identity(dim)
        i1[1, 0] = -3.0
        x = g.Point(*([1.0, 2.0, 3.0][:dim]))
        ok = (t0 ** 0) * x == x and identity(dim) * x == x and np.array_equal(np.asarray(identity(dim).array, dtype=float), np.eye(dim + 1)) and np.array_equal(np.asarray((t0 ** 0).array, dtype=float), np.eye(dim + 1))
        ctx.ensure("identity-and-t**0-are-fresh-objects", ok, witness=dict(dim=dim))
    for nb in (63, 64, 70):
        mats = np.array([[[1, k % 3, k - 30], [0, 1 + (k % 2), 2 * k - 50], [0, 0, 1]] for k in range(nb)], dtype=np.int64)
        tcol = TransformationCollection(mats)
        w = dict(batch=nb, dtype="int64")
        try:
            inv = tcol.inverse()
            prod = np.einsum("nij,njk->nik", np.asarray(inv.array, dtype=float), mats.astype(float))
            ok = all(np.allclose(prod[k] / prod[k][2, 2], np.eye(3), atol=1e-9) for k in range(nb))
            lines = g.LineCollection(np.array([[1, 2, -3]] * nb))
            pts = g.PointCollection(np.array([[3, 0, 1]] * nb))
            ok = ok and bool(np.all((tcol * lines).contains(tcol * pts))) and (tcol ** -1) == inv
        except Exception as e:
            ok = False
            w["exception"] = "%s: %s" % (type(e).__name__, str(e)[:100])
        ctx.ensure("integer-collections-both-sides-of-64:inverse-and-action-on-lines", ok, witness=w)
    rs = np.random.RandomState(5)
    for dim, spacing in ((2, 1e-4), (2, 1.0), (3, 2e-3), (3, 1.0)):
        for factor in (1.0, 1e-3):
            for _ in range(4):
                while True:
                    A = rs.randint(-4, 5, size=(dim + 2, dim)).astype(float)
                    B = rs.randint(-4, 5, size=(dim + 2, dim)).astype(float)
                    hom = lambda X: np.hstack([X, np.ones((dim + 2, 1))])
                    if all(abs(np.linalg.det(np.delete(hom(X), i, axis=0))) > 0.5 for X in (A, B) for i in range(dim + 2)):
                        break
                src = [g.Point(np.append(a * spacing + 3.0, 1.0) * factor) for a in A]
                dst = [g.Point(np.append(b * spacing - 1.0, 1.0) * factor) for b in B]
                w = dict(dim=dim, spacing=spacing, homogeneous_factor=factor)
                try:
                    t = Transformation.from_points(*zip(src, dst))
                    ok = all(np.allclose((t * a).normalized_array, b.normalized_array, atol=1e-6 * spacing + 1e-12) for a, b in zip(src, dst))
                except Exception as e:
                    ok = False
                    w["exception"] = "%s: %s" % (type(e).__name__, str(e)[:100])
                ctx.ensure("from_points:small-frames-and-small-representatives", ok, witness=w, prop=("C08",))


@case("C13", "quadric.representatives.lattice", [], kind="bounded", also=("C03", "C14"), share=True,
      functions=["geometer.curve.Sphere.radius", "geometer.curve.Sphere.center", "geometer.curve.Sphere.volume", "geometer.curve.Sphere.area", "geometer.curve.Circle.radius", "geometer.curve.Circle.center",
                 "geometer.curve.QuadricTensor.contains", "geometer.curve.QuadricTensor.dual", "geometer.curve.QuadricTensor.polar"],
      bound="spheres / circles whose quadric matrix is multiplied by f in {1, -1, 2.5, -0.01} or that were moved by a transformation with matrix f*T: radius, centre, area, volume read-backs; "
            "contains with an explicit tol on large coordinates; class and behaviour of dual / dual.dual for Circle, Ellipse, Sphere, Conic; Sphere / Circle / Ellipse with the centre given by the integer "
            "representatives k*(1,2,3,2), k*(3,-1,2), k in {1,2,-1,4,-3}")
def quadric_representatives(ctx):
    import geometer as g
    from geometer.curve import Sphere, Circle, Ellipse, Conic, Quadric
    from geometer.transformation import Transformation, translation, rotation

    for f in (1.0, -1.0, 2.5, -0.01):
        s = Sphere(g.Point(1, -2, 3), 2)
        s2 = s.copy()
        s2.array = s.array * f
        w = dict(factor=f)
        ok = abs(float(np.real(s2.radius)) - 2) < 1e-9 and s2.center == g.Point(1, -2, 3) and abs(float(np.real(s2.volume)) - 4 / 3 * math.pi * 8) < 1e-6 and abs(float(np.real(s2.area)) - 16 * math.pi) < 1e-6 and s2 == s
        ctx.ensure("sphere:read-backs-independent-of-the-matrix-representative", ok, witness=dict(w, radius=str(s2.radius)))
        T = rotation(0.7, axis=g.Point(1, 2, 2)) * translation(1, 0, -2)
        t = Transformation(np.asarray(T.array) * f)
        ts = t * s
        ok = abs(float(np.real(ts.radius)) - 2) < 1e-9 and ts.center == T * g.Point(1, -2, 3) and abs(float(np.real(ts.volume)) - 4 / 3 * math.pi * 8) < 1e-6
        ctx.ensure("sphere:read-backs-after-a-motion-given-by-any-representative", ok, witness=dict(w, radius=str(ts.radius)))
        c = Circle(g.Point(3, -4), 2.5)
        c2 = c.copy()
        c2.array = c.array * f
        ok = abs(float(np.real(c2.radius)) - 2.5) < 1e-9 and c2.center == g.Point(3, -4) and abs(float(np.real(c2.area)) - math.pi * 6.25) < 1e-6
        ctx.ensure("circle:read-backs-independent-of-the-matrix-representative", ok, witness=dict(w, radius=str(c2.radius)))
    # centres given by INTEGER homogeneous representatives with last coordinate != 1 (also negative) and integer radii
    for k in (1, 2, -1, 4, -3):
        w = dict(scale=k)
        try:
            s = Sphere(g.Point(np.array([1, 2, 3, 2]) * k), 2)  # the point (0.5, 1, 1.5)
            ok = abs(float(np.real(s.radius)) - 2) < 1e-9 and s.center == g.Point(0.5, 1, 1.5) and bool(s.contains(g.Point(2.5, 1, 1.5))) and bool(s.contains(g.Point(0.5, 1, -0.5))) \
                and not bool(s.contains(g.Point(2, 1, 1))) and s == Sphere(g.Point(0.5, 1, 1.5), 2)
            c = Circle(g.Point(np.array([3, -1, 2]) * k), 2)  # centre (1.5, -0.5)
            ok = ok and abs(float(np.real(c.radius)) - 2) < 1e-9 and c.center == g.Point(1.5, -0.5) and bool(c.contains(g.Point(3.5, -0.5))) and not bool(c.contains(g.Point(3, -0.5))) and c == Circle(g.Point(1.5, -0.5), 2)
            e = Ellipse(g.Point(np.array([3, -1, 2]) * k), 3, 2)
            ok = ok and bool(e.contains(g.Point(4.5, -0.5))) and bool(e.contains(g.Point(1.5, 1.5))) and not bool(e.contains(g.Point(4, -0.5))) and e == Ellipse(g.Point(1.5, -0.5), 3, 2)
        except Exception as ex:
            ok = False
            w["exception"] = "%s: %s" % (type(ex).__name__, str(ex)[:100])
        ctx.ensure("sphere/circle/ellipse:centre-given-by-any-integer-homogeneous-representative", ok, witness=w, prop=("C03", "C13"))
    # explicit tolerance of contains on large coordinates
    big = Circle(g.Point(123456.0, -654321.0), 250000.0)
    on = [g.Point(123456.0 + 250000.0 * math.cos(t), -654321.0 + 250000.0 * math.sin(t)) for t in (0.3, 1.7, 4.0)]
    ctx.ensure("contains(tol=1e-4)-accepts-locus-points-of-a-large-circle", all(bool(big.contains(x, tol=1e-4)) for x in on), witness="Circle((123456, -654321), 250000)")
    unit = Circle(g.Point(0, 0), 1)
    ctx.ensure("contains(tol=1e-10)-rejects-a-point-2e-9-outside", not bool(unit.contains(g.Point(1 + 2e-9, 0), tol=1e-10)) and bool(unit.contains(g.Point(1 + 2e-9, 0), tol=1e-6)), witness="unit circle")
    # duals of the subclasses keep working as conics
    for q in (Circle(g.Point(1, 1), 2), Ellipse(g.Point(0, 1), 3, 2), Conic(np.diag([1.0, 4.0, -4.0]))):
        d = q.dual
        dd = d.dual
        w = dict(quadric=type(q).__name__)
        try:
            tl = g.Line(1, 0, -3) if not isinstance(q, Ellipse) else g.Line(1, 0, -3)
            pole = d.polar(g.Line(1, 2, -9)) if hasattr(d, "polar") else None
            outside = g.Point(9, 7)
            tang = dd.tangent(outside)
            ok = isinstance(d, Conic) and isinstance(dd, Conic) and dd == q and pole is not None and isinstance(tang, tuple) and len(tang) == 2 \
                and all(bool(q.is_tangent(x)) and bool(x.contains(outside)) for x in tang)
            other = Circle(g.Point(0, 0), 2.5)
            pts = other.intersect(dd)
            ok = ok and len(pts) <= 4 and all(abs(np.asarray(x.array, dtype=complex) @ np.asarray(q.array, dtype=complex) @ np.asarray(x.array, dtype=complex))
                                               <= 1e-7 * np.abs(q.array).max() * np.abs(x.array).max() ** 2 for x in pts)
        except Exception as e:
            ok = False
            w["exception"] = "%s: %s" % (type(e).__name__, str(e)[:100])
        ctx.ensure("dual-and-dual.dual-of-conic-subclasses-stay-conics-and-work", ok, witness=w, prop=("C14",))


@case("C14", "quadric.line.magnitudes.lattice", [], kind="bounded", also=("C15",), share=True,
      functions=["geometer.curve.QuadricTensor.intersect", "geometer.curve.QuadricTensor.components", "geometer.curve.Conic.intersect"],
      bound="unit circles / spheres centred up to 40000 from the origin x secants through known points, tangents, missing lines; pairs of nearly equal lines (1e-5 apart) decomposed; "
            "line pair x line pair (four common points), line pair x circle in both orders")
def quadric_line_magnitudes(ctx):
    import geometer as g
    from geometer.curve import Circle, Sphere, Conic

    def same(x, p, rel=1e-6):
        a = np.asarray(x.array, dtype=complex)
        b = np.array(list(p) + [1], dtype=complex)
        m = np.array([a / np.abs(a).max(), b / np.abs(b).max()])
        sv = np.linalg.svd(m, compute_uv=False)
        return sv[1] <= rel * sv[0]

    for D in (0.0, 100.0, 5000.0, 40000.0):
        c = (D, -0.5 * D)
        C = Circle(g.Point(*c), 1)
        pts = [(c[0] + 1, c[1]), (c[0], c[1] + 1), (c[0] - 1, c[1]), (c[0] + 0.6, c[1] + 0.8), (c[0] - 0.8, c[1] + 0.6)]
        for p, q in itertools.combinations(pts, 2):
            res = C.intersect(g.Line(g.Point(*p), g.Point(*q)))
            ok = len(res) == 2 and all(any(same(x, k, 1e-6) for x in res) for k in (p, q))
            ctx.ensure("circle-far-from-the-origin:secant-returns-the-two-known-points", ok, witness=dict(offset=D, line=(p, q), got=str([np.asarray(x.normalized_array).round(4).tolist() for x in res])[:200]))
        if D <= 100:
            # short chords: two distinct common points 1e-3 apart must both be returned (single line and the same line in a collection)
            for th in (0.4, 2.0, 4.1):
                p, q = (c[0] + math.cos(th), c[1] + math.sin(th)), (c[0] + math.cos(th + 1e-3), c[1] + math.sin(th + 1e-3))
                L = g.Line(g.Point(*p), g.Point(*q))
                res = C.intersect(L)
                resc = C.intersect(g.LineCollection([L.array, L.array]))
                ok = len(res) == 2 and all(any(same(x, k, 1e-7) for x in res) for k in (p, q)) and len(resc) == 2 and not (res[0] == res[1])
                ctx.ensure("circle:short-chord-returns-both-points", ok, witness=dict(offset=D, angle=th, got=str([np.asarray(x.normalized_array).round(6).tolist() for x in res])[:200]))
        res = C.intersect(g.Line(g.Point(c[0] + 3, c[1]), g.Point(c[0] + 3, c[1] + 1)))
        ctx.ensure("circle-far-from-the-origin:missing-line-gives-two-complex-points", len(res) == 2 and not any(bool(np.all(x.isreal)) for x in res), witness=dict(offset=D))
        if D > 5000:
            continue  # beyond the resolution of the 3D projection at this distance (observed on the clean tree)
        s3 = (D, -0.5 * D, 0.25 * D)
        S = Sphere(g.Point(*s3), 1)
        sp = [(s3[0] + 1, s3[1], s3[2]), (s3[0], s3[1] + 1, s3[2]), (s3[0], s3[1], s3[2] - 1), (s3[0] + 0.6, s3[1], s3[2] + 0.8)]
        for p, q in itertools.combinations(sp, 2):
            res = S.intersect(g.Line(g.Point(*p), g.Point(*q)))
            ok = len(res) == 2 and all(any(same(x, k, 1e-5) for x in res) for k in (p, q))
            ctx.ensure("sphere-far-from-the-origin:secant-returns-the-two-known-points", ok, witness=dict(offset=D, line=(p, q)))
    # nearly equal lines are still two lines
    for (l1, l2) in [((1, 2, 3), (1 + 1e-5, 2, 3)), ((0, 1, -1), (1e-4, 1, -1)), ((3, -1, 2), (3, -1, 2 + 1e-4))]:
        G, H = g.Line(*l1), g.Line(*l2)
        comp = Conic.from_lines(G, H).components
        ok = len(comp) == 2 and ((comp[0] == G and comp[1] == H) or (comp[0] == H and comp[1] == G)) and not (comp[0] == comp[1])
        ctx.ensure("components-of-two-nearly-equal-lines-are-the-two-lines", ok, witness=dict(lines=(l1, l2), got=str([c.array.tolist() for c in comp])[:200]), prop=("C15",))
    # two line pairs: the four common points; line pair against a circle in both orders
    A, B, Cc, Dd = g.Line(1, 0, -1), g.Line(0, 1, -2), g.Line(1, 1, 0), g.Line(1, -1, 3)
    try:
        res = Conic.from_lines(A, B).intersect(Conic.from_lines(Cc, Dd))
        want = [A.meet(Cc), A.meet(Dd), B.meet(Cc), B.meet(Dd)]
        ok = len(res) <= 4 and all(any(x == w_ for x in res) for w_ in want)
        got = str([np.asarray(x.normalized_array).round(4).tolist() for x in res])[:200]
    except (Exception, RecursionError) as e:
        ok, got = False, "%s" % type(e).__name__
    ctx.ensure("line-pair-x-line-pair:the-four-common-points", ok, witness=dict(got=got), prop=("C15",))
    circ = Circle(g.Point(0, 0), 5)
    pair = Conic.from_lines(g.Line(1, 0, -3), g.Line(0, 1, -4))
    want = [(3, 4), (3, -4), (-3, 4)]
    for name, th in (("circle.intersect(pair)", lambda: circ.intersect(pair)),):
        try:
            res = th()
            ok = len(res) <= 4 and all(any(same(x, w_) for x in res) for w_ in want)
        except (Exception, RecursionError) as e:
            ok = False
        ctx.ensure("circle-x-line-pair:common-points", ok, witness=dict(call=name), prop=("C15",))


@case("C16", "membership.numeric.lattice", [], kind="bounded", also=("C17", "C19", "C20"), share=True,
      functions=["geometer.shapes.PolygonTensor.contains", "geometer.shapes.SegmentTensor.__init__", "geometer.shapes.PolytopeTensor.__eq__", "geometer.base.Tensor.__rsub__", "geometer.utils.math.null_space"],
      bound="polygon membership for queries 2**-10 above / below the level of a vertex at coordinates ~100 (both orientations); segments and polygons built from a caller's array that is modified "
            "afterwards; == of polytopes with coordinates ~1e4 that differ by 0.05; reflected subtraction with wider dtypes / more axes on the left; null_space without dim for matrices scaled by 1e6 and 1e-17; integer segments with coordinates 300..30000 x 5 queries; "
            "point arithmetic with directions whose last coordinate is 0, 1e-12, -3e-13")
def membership_numeric(ctx):
    import geometer as g
    from geometer.shapes import Polygon, Segment, SegmentCollection, Cuboid, Rectangle
    from geometer.utils import math as um

    eps = 2.0 ** -10
    for y0 in (0.0, 100.0, -100.0):  # at |y| = 250 the library's absolute tolerance already swallows 2**-10 (observed on the clean tree; outside the claimed range)
        vs = [(0.0, y0), (10.0, y0), (10.0, y0 + 5), (0.0, y0 + 5)]
        for vv in (vs, vs[::-1], vs[1:] + vs[:1], vs[::-1][2:] + vs[::-1][:2]):
            P = Polygon(*[g.Point(*v) for v in vv])
            for (q, want) in [((5.0, y0 + eps), True), ((5.0, y0 - eps), False), ((5.0, y0 + 5 - eps), True), ((5.0, y0 + 5 + eps), False), ((eps, y0 + eps), True), ((10 - eps, y0 + 5 - eps), True),
                              ((-eps, y0 + 1), False), ((10 + eps, y0 + 1), False)]:
                ctx.ensure("polygon.contains-just-inside/outside-the-level-of-a-vertex", bool(P.contains(g.Point(*q))) == want, witness=dict(vertices=vv, query=q, expected=want))
    # objects built from a caller's buffer keep their value when the buffer is modified later
    arr = np.array([[0.0, 0.0, 1.0], [4.0, 0.0, 1.0]])
    S = Segment(arr)
    arr[1] = [0.0, 4.0, 1.0]
    ok = bool(S.contains(g.Point(2, 0))) and not bool(S.contains(g.Point(0, 2))) and S.vertices[1] == g.Point(4, 0) and abs(float(S.length) - 4) < 1e-12
    ctx.ensure("segment-built-from-an-array-is-independent-of-later-changes-of-the-array", ok, witness="Segment(arr); arr[1] = ...")
    arr2 = np.array([[[0.0, 0.0, 1.0], [4.0, 0.0, 1.0]], [[1.0, 1.0, 1.0], [1.0, 5.0, 1.0]]])
    SC = SegmentCollection(arr2)
    arr2[0, 1] = [0.0, 4.0, 1.0]
    ok = bool(SC.contains(g.PointCollection([[2, 0, 1], [1, 3, 1]]))[0]) and not bool(SC.contains(g.PointCollection([[0, 2, 1], [1, 3, 1]]))[0])
    ctx.ensure("segment-built-from-an-array-is-independent-of-later-changes-of-the-array", ok, witness="SegmentCollection(arr); arr[0, 1] = ...")
    parr = np.array([[0.0, 0.0, 1.0], [4.0, 0.0, 1.0], [4.0, 4.0, 1.0], [0.0, 4.0, 1.0]])
    Pg = Polygon(parr)
    parr[2] = [1.0, 1.0, 1.0]
    ctx.ensure("polygon-built-from-an-array-is-independent-of-later-changes-of-the-array", bool(Pg.contains(g.Point(3, 3))) and abs(float(Pg.area) - 16) < 1e-12, witness="Polygon(arr); arr[2] = ...", prop=("C16", "C17"))
    # segments with INTEGER coordinates of magnitude 300 .. 30000 (the products inside contains must not overflow int64)
    for M in (300, 3000, 30000):
        for (a, b) in (((M, 0), (0, M)), ((-M, M), (M, 2 * M)), ((M, M), (3 * M, M))):
            S = Segment(g.Point(*a), g.Point(*b))
            mid = ((a[0] + b[0]) // 2, (a[1] + b[1]) // 2)
            beyond = (2 * b[0] - a[0], 2 * b[1] - a[1])
            quarter = (a[0] + (b[0] - a[0]) // 4, a[1] + (b[1] - a[1]) // 4)
            got = [bool(S.contains(g.Point(*q))) for q in (mid, quarter, a, b, beyond)]
            ctx.ensure("segment.contains-with-integer-coordinates-300..30000", got == [True, True, True, True, False], witness=dict(a=a, b=b, queries=[mid, quarter, a, b, beyond], got=got), prop=("C16",))
    # a direction whose last coordinate is a rounding residue (|z| <= 1e-8: isinf is True) acts as a direction in point arithmetic as well
    for res in (0.0, 1e-12, -3e-13):
        d = g.Point(np.array([1.0, 2.0, res]))
        p = g.Point(3, 4)
        try:
            r1, r2 = p + d, d * 2
            pc = g.PointCollection(np.array([[1.0, 1.0, 1.0], [0.0, 1.0, res]])) + g.Point(1, 1)
            ok = bool(d.isinf) and r1 == g.Point(4, 6) and bool(r2.isinf) and np.allclose(np.asarray(r2.array)[:2], [2, 4]) and pc[0] == g.Point(2, 2) and pc[1] == g.Point(1, 2)
            got = str(np.asarray(r1.array).tolist())
        except Exception as ex:
            ok, got = False, "%s: %s" % (type(ex).__name__, str(ex)[:80])
        ctx.ensure("point-arithmetic-treats-a-point-with-residual-last-coordinate-as-a-direction-(like-isinf)", ok, witness=dict(residue=res, got=got), prop=("C19",))
    # equality resolves differences far above the tolerance at large coordinates
    for shift in (0.05, -0.03):
        a = Rectangle(g.Point(10000, 10000), g.Point(10001, 10000), g.Point(10001, 10001), g.Point(10000, 10001))
        b = Rectangle(g.Point(10000 + shift, 10000 + shift), g.Point(10001 + shift, 10000 + shift), g.Point(10001 + shift, 10001 + shift), g.Point(10000 + shift, 10001 + shift))
        c1 = Cuboid(g.Point(100, 100, 100), g.Point(101, 100, 100), g.Point(100, 101, 100), g.Point(100, 100, 101))
        c2 = Cuboid(g.Point(100 + shift, 100, 100), g.Point(101 + shift, 100, 100), g.Point(100 + shift, 101, 100), g.Point(100 + shift, 100, 101))
        s1, s2 = Segment(g.Point(5000, 5000), g.Point(5001, 5002)), Segment(g.Point(5000 + shift, 5000), g.Point(5001 + shift, 5002))
        ctx.ensure("==distinguishes-polytopes-that-differ-by-0.03..0.05-at-large-coordinates", not (a == b) and not (c1 == c2) and not (s1 == s2) and a == a and c1 == Cuboid(g.Point(100, 100, 100), g.Point(101, 100, 100), g.Point(100, 101, 100), g.Point(100, 100, 101)),
                   witness=dict(shift=shift), prop=("C17",))
    # reflected subtraction
    from geometer.base import Tensor
    t_int, t_f32 = Tensor(np.array([1, 2, 3])), Tensor(np.array([1, 2, 3], dtype=np.float32))
    tests = [("2.5 - int tensor", lambda: 2.5 - t_int, np.array([1.5, 0.5, -0.5])), ("float array - int tensor", lambda: np.array([0.5, 0.25, 4.0]) - t_int, np.array([-0.5, -1.75, 1.0])),
             ("1j - float tensor", lambda: 1j - Tensor(np.array([1.0, 2.0])), np.array([-1 + 1j, -2 + 1j])), ("np.subtract(0.5, line)", lambda: np.subtract(0.5, g.Line(1, 2, 3)), np.array([-0.5, -1.5, -2.5])),
             ("float64 array - float32 tensor", lambda: np.array([0.1, 0.2, 0.3]) - t_f32, np.array([0.1, 0.2, 0.3]) - np.array([1.0, 2.0, 3.0])),
             ("(2,3) array - (3,) tensor", lambda: np.array([[1.0, 1, 1], [2, 2, 2]]) - t_int, np.array([[0.0, -1, -2], [1, 0, -1]]))]
    for name, th, want in tests:
        try:
            r = th()
            arr_ = np.asarray(r.array if hasattr(r, "array") else r)
            ok = arr_.shape == want.shape and np.allclose(arr_, want, atol=1e-12) and (arr_.dtype == np.result_type(want.dtype, arr_.dtype))
            if name.startswith("float64 array"):
                ok = ok and arr_.dtype == np.float64
            got = str(arr_.tolist())[:100]
        except Exception as e:
            ok, got = False, "%s: %s" % (type(e).__name__, str(e)[:80])
        ctx.ensure("reflected-subtraction-promotes-and-broadcasts-like-numpy", ok, witness=dict(case=name, got=got), prop=("C19",))
    # null_space without dim: the rank decision is relative to the scale of the matrix
    base = np.array([[1.0, 2, 3], [2, 4, 6], [1, 0, 1]])  # rank 2
    for scale in (1.0, 1e6, 1e-6, 1e12):
        Q = um.null_space(base * scale)
        ctx.ensure("null_space(no dim):kernel-dimension-independent-of-the-scale", Q.shape == (3, 1) and np.allclose(base @ Q, 0, atol=1e-9), witness=dict(scale=scale, got=Q.shape), prop=("C20",))
    for scale in (1.0, 1e-17, 1e9):
        Q = um.null_space(np.eye(3) * scale)
        ctx.ensure("null_space(no dim):kernel-dimension-independent-of-the-scale", Q.shape == (3, 0), witness=dict(matrix="%g * I" % scale, got=Q.shape), prop=("C20",))
    Q = um.null_space(np.stack([base * 1e6, base * 3e5]))
    ctx.ensure("null_space(no dim):kernel-dimension-independent-of-the-scale", Q.shape == (2, 3, 1), witness=dict(matrix="batch", got=Q.shape), prop=("C20",))

"""subprocess entry points:
   python -m gvc.worker run <case_id> <tier> <seed> <timeout_scale>   -> JSON summary on stdout (last line)
   python -m gvc.worker replay <replay.json>                         -> JSON result on stdout (last line)
"""
from __future__ import annotations

import importlib
import json
import os
import sys

HERE = os.path.dirname(os.path.dirname(os.path.abspath(__file__)))


def _paths():
    for p in (os.path.join(HERE, ".deps"), HERE, os.environ.get("GVC_REPO", "/repo")):
        if p not in sys.path:
            sys.path.insert(0, p)


def load_contracts(props=None):
    from contracts import INDEX

    mods = set()
    for prop, ms in INDEX.items():
        if props is None or prop in props:
            mods.update(ms)
    for m in sorted(mods):
        importlib.import_module("contracts." + m)
    importlib.import_module("contracts.canary")


def main(argv):
    _paths()
    cmd = argv[1]
    if cmd == "run":
        case_id, tier, seed, scale = argv[2], argv[3], int(argv[4]), float(argv[5])
        prop = case_id.split("/")[0]
        load_contracts()
        from gvc.harness import run_case

        r = run_case(case_id, tier=tier, seed=seed, timeout_scale=scale)
        sys.stdout.write("\n@@RESULT@@" + json.dumps(r) + "\n")
        return 0
    if cmd == "replay":
        with open(argv[2]) as f:
            rp = json.load(f)
        load_contracts()
        from gvc.harness import replay_case

        r = replay_case(rp["case"], rp.get("model") or {})
        sys.stdout.write("\n@@RESULT@@" + json.dumps(r) + "\n")
        return 0
    raise SystemExit("unknown command")


if __name__ == "__main__":
    sys.exit(main(sys.argv))

"""subprocess entry points:
   python -m gvc.worker run <case_id> <tier> <seed> <timeout_scale>   -> JSON summary on stdout (last line)
   python -m gvc.worker replay <replay.json>                         -> JSON result on stdout (last line)
"""
from __future__ import annotations

import importlib
import json
import os
import sys

HERE = os.path.dirname(os.path.dirname(os.path.abspath(__file__)))


def _paths():
    for p in (os.path.join(HERE, ".deps"), HERE, os.environ.get("GVC_REPO", "/repo")):
        if p not in sys.path:
            sys.path.insert(0, p)


def load_contracts(props=None):
    from contracts import INDEX

    mods = set()
    for prop, ms in INDEX.items():
        if props is None or prop in props:
            mods.update(ms)
    for m in sorted(mods):
        importlib.import_module("contracts." + m)
    importlib.import_module("contracts.canary")


def main(argv):
    _paths()
    cmd = argv[1]
    if cmd == "run":
        case_id, tier, seed, scale = argv[2], argv[3], int(argv[4]), float(argv[5])
        prop = case_id.split("/")[0]
        load_contracts()
        from gvc.harness import run_case

        r = run_case(case_id, tier=tier, seed=seed, timeout_scale=scale)
        sys.stdout.write("\n@@RESULT@@" + json.dumps(r) + "\n")
        return 0
    if cmd == "replay":
        with open(argv[2]) as f:
            rp = json.load(f)
        load_contracts()
        from gvc.harness import replay_case

        r = replay_case(rp["case"], rp.get("model") or {})
        sys.stdout.write("\n@@RESULT@@" + json.dumps(r) + "\n")
        return 0
    if cmd == "xcheck":
        # engine cross-check (CPython differential): proxy run with constant symbols vs native run, same harness, same inputs
        import random
        import subprocess
        from fractions import Fraction

        case_id, seed, npts = argv[2], int(argv[3]), int(argv[4])
        os.environ["GVC_OPEN_FINDINGS"] = ""  # compare the raw clauses: excuses of known findings are not applied here
        load_contracts()
        from gvc.harness import BY_ID, concrete_proxy_run

        case = BY_ID[case_id]
        rnd = random.Random(seed * 7919 + len(case_id))
        results = []
        tries = 0
        while len(results) < npts and tries < npts * 6:
            tries += 1
            model = {n: str(Fraction(rnd.randint(-4, 4), rnd.choice([1, 1, 1, 2]))) for n in case.symbols}
            import tempfile

            with tempfile.NamedTemporaryFile("w", suffix=".json", delete=False) as f:
                json.dump(dict(case=case_id, model=model), f)
                name = f.name
            env = dict(os.environ)
            p = subprocess.run([sys.executable, "-m", "gvc.worker", "replay", name], capture_output=True, text=True, env=env, timeout=300)
            os.unlink(name)
            import re

            m = re.search(r"@@RESULT@@(.*)$", p.stdout, re.M)
            if not m:
                continue
            nat = json.loads(m.group(1))
            if not nat.get("applicable", True):
                continue
            prox = concrete_proxy_run(case_id, model)
            if prox["status"] != "ok":
                results.append(dict(model=model, status=prox["status"]))
                continue
            natc = {}
            for n, ok in nat.get("results", []):
                natc[n] = ok if n not in natc else (natc[n] and ok)
            dis = []
            if bool(nat.get("exception")) != bool(prox.get("raised")):
                dis.append(("exception", nat.get("exception"), prox.get("raised")))
            for n, v in prox["clauses"].items():
                if v is not None and n in natc and natc[n] != v:
                    dis.append((n, natc[n], v))
            results.append(dict(model=model, status="ok", compared=len([1 for n, v in prox["clauses"].items() if v is not None and n in natc]), disagreements=dis))
        sys.stdout.write("\n@@RESULT@@" + json.dumps(dict(case=case_id, points=results)) + "\n")
        return 0
    raise SystemExit("unknown command")


if __name__ == "__main__":
    sys.exit(main(sys.argv))

"""Install / remove the symbolic numpy proxy in the geometer modules of the *current process* and
provide opaque-callee stubs.  The function objects of geometer are untouched: only module globals
(`np`, `csqrt`, `is_numerical_dtype`) are rebound."""
from __future__ import annotations

import contextlib
import importlib
import sys
import types

MODS = [
    "geometer.utils.math",
    "geometer.utils.indexing",
    "geometer.utils.ops_dispatch",
    "geometer.utils",
    "geometer.exceptions",
    "geometer.base",
    "geometer.point",
    "geometer.transformation",
    "geometer.curve",
    "geometer.operators",
    "geometer.shapes",
]

_state = {"active": False}


def geometer_modules():
    import geometer  # noqa: F401

    return [importlib.import_module(m) for m in MODS]


def replace_everywhere(old, new):
    """rebind every module-global reference to function `old`"""
    n = 0
    for mod in geometer_modules():
        for k, v in list(vars(mod).items()):
            if v is old:
                setattr(mod, k, new)
                n += 1
    return n


def activate():
    if _state["active"]:
        return
    from gvc.snp import snp, ssqrt
    import numpy as _np

    mods = geometer_modules()
    for mod in mods:
        if mod.__name__ in ("geometer.utils.indexing", "geometer.utils.ops_dispatch", "geometer.exceptions"):
            continue
        if getattr(mod, "np", None) is _np:
            mod.np = snp
        if hasattr(mod, "csqrt"):
            mod.csqrt = ssqrt
    umath = importlib.import_module("geometer.utils.math")
    old = umath.is_numerical_dtype

    def is_numerical_dtype(dtype):
        dtype = _np.dtype(dtype)
        return dtype == object or _np.issubdtype(dtype, _np.number) or _np.issubdtype(dtype, _np.bool_)

    is_numerical_dtype.__gvc_replaces__ = old
    replace_everywhere(old, is_numerical_dtype)
    _state["active"] = True


def resolve(path):
    """'geometer.point.LineTensor.base_point' -> (owner, attrname, current value)"""
    parts = path.split(".")
    for cut in range(len(parts), 0, -1):
        modname = ".".join(parts[:cut])
        if modname in sys.modules or _try_import(modname):
            obj = sys.modules[modname]
            owner = None
            for name in parts[cut:]:
                owner = obj
                obj = obj.__dict__[name] if isinstance(obj, type) and name in obj.__dict__ else getattr(obj, name)
            return owner, parts[-1], obj
    raise ImportError(path)


def _try_import(name):
    try:
        importlib.import_module(name)
        return True
    except ImportError:
        return False


@contextlib.contextmanager
def opaque(path, stub):
    """replace a function (all module-global references) or a method/property (on its class) by `stub`"""
    owner, name, cur = resolve(path)
    if isinstance(owner, types.ModuleType):
        if not isinstance(cur, types.FunctionType):
            raise TypeError("not a function: %s" % path)
        stub.__gvc_original__ = cur
        replace_everywhere(cur, stub)
        try:
            yield cur
        finally:
            replace_everywhere(stub, cur)
    else:
        raw = owner.__dict__[name]
        setattr(owner, name, stub)
        try:
            yield raw
        finally:
            setattr(owner, name, raw)

"""Frame checker for C12 (purity): a per-function ownership analysis over the AST of every function of
/repo/geometer.  Contract of every function (except the documented mutators listed in MUTATORS):

        assigns \\nothing   that is reachable from a parameter, `self`, a module global or a class cache.

Every in-place write site (subscript store, augmented assignment, `out=` argument, attribute store outside
__init__, mutating method call) generates one obligation "the written object is FRESH", i.e. was allocated
inside the function.  Values carry a pair (object status, buffer status) because Tensor.copy() is a shallow copy:
the object is new, the coordinate array is shared.

FRESH obligations are discharged, BORROWED targets are refuted (violation), UNKNOWN is undecided.
The view/copy table of numpy operations below is the trusted base; it is differential-tested at start-up with
np.shares_memory (check_numpy_table).
"""
from __future__ import annotations

import ast
import glob
import os

F, U, B = 0, 1, 2  # fresh < unknown < borrowed
NAMES = {F: "FRESH", U: "UNKNOWN", B: "BORROWED"}

# documented mutators: builder methods of TensorDiagram, explicit item assignment, constructors
MUTATORS = {
    ("TensorDiagram", "add_node"), ("TensorDiagram", "add_edge"), ("TensorDiagram", "__init__"),
    ("Tensor", "__setitem__"),
}

# numpy functions that allocate their result (never alias an argument)
NP_FRESH = {
    "zeros", "ones", "empty", "eye", "stack", "append", "concatenate", "column_stack", "outer", "einsum", "matmul", "dot", "tensordot",
    "cross", "where", "delete", "roll", "tile", "indices", "arange", "zeros_like", "empty_like", "ones_like", "sum", "prod", "abs",
    "sqrt", "isclose", "all", "any", "max", "min", "argmax", "argsort", "diag", "triu_indices", "unravel_index", "ravel_multi_index",
    "take_along_axis", "flip", "cos", "sin", "arccos", "cbrt", "log", "maximum", "sign", "conjugate", "conj", "isreal", "isinf",
    "average", "frexp", "ldexp", "divide", "multiply", "nonzero", "flatnonzero", "fromfunction", "vdot", "allclose", "isscalar",
    "promote_types", "common_type", "spacing", "roots", "ndindex", "broadcast", "vectorize", "errstate", "dtype", "issubdtype", "float64",
    "int_", "complex128", "int8", "bool_",
}
NP_LINALG_FRESH = {"det", "inv", "solve", "svd", "qr", "eigvalsh", "norm"}
# numpy functions whose result may be a view of (or identical to) the first argument
NP_VIEW = {"asarray", "asanyarray", "swapaxes", "moveaxis", "reshape", "expand_dims", "squeeze", "real_if_close", "transpose", "diagonal",
           "real", "imag", "broadcast_arrays", "atleast_1d", "ravel"}
# np.array(x) copies unless copy=False
# ndarray / tensor methods
M_VIEW = {"reshape", "transpose", "swapaxes", "squeeze", "view", "ravel", "__getitem__"}
M_FRESH = {"astype", "dot", "conj", "conjugate", "sum", "prod", "max", "min", "argmax", "nonzero", "tolist", "flatten", "all", "any",
           "meet", "join", "parallel", "perpendicular", "mirror", "project", "contains", "intersect", "tangent", "polar", "is_tangent",
           "inverse", "apply", "calculate", "is_zero", "is_coplanar", "is_parallel", "tensor_product", "expand_dims", "from_points",
           "_matrix_transform", "_normalized_projection", "items", "keys", "values", "get", "setdefault", "index", "count", "join",
           "format", "nonzero", "__apply__", "__pow__", "__add__", "__sub__", "__mul__", "__truediv__", "__eq__", "__radd__", "__rsub__",
           "__neg__", "add_node", "_get_index_mapping", "_cast_polytope"}
# geometer functions that return freshly allocated results (summaries; each is itself analysed by this checker)
G_FRESH = {"join", "meet", "_join_meet_duality", "_divide_by_power_of_two", "det", "adjugate", "inv", "null_space", "orth", "matmul", "matvec",
           "outer", "hat_matrix", "roots", "is_multiple", "crossratio", "harmonic_set", "angle", "dist", "_point_dist", "is_coplanar",
           "is_collinear", "is_concurrent", "is_perpendicular", "is_cocircular", "angle_bisectors", "translation", "rotation", "scaling",
           "reflection", "identity", "affine_transform", "infty_hyperplane", "normalize_index", "sanitize_index", "posify_index",
           "is_numerical_scalar", "is_numerical_dtype", "_minor_indices", "distinct", "maybe_dispatch_ufunc_to_dunder_op", "csqrt",
           "_assert_square_matrix", "_assert_numerical_array", "replace_ellipsis", "_sanitize_index_element"}
PY_FRESH = {"list", "tuple", "set", "dict", "range", "len", "sum", "abs", "int", "float", "bool", "str", "sorted", "reversed", "enumerate", "zip",
            "max", "min", "all", "any", "isinstance", "hasattr", "getattr", "type", "permutations", "combinations", "super", "slice", "repr",
            "map", "iter", "next", "print"}
# classes whose constructor copies the data by default (np.array(..., copy=True)) -> fresh unless copy=False
CLASSES = {"Tensor", "TensorCollection", "Point", "PointCollection", "Line", "LineCollection", "Plane", "PlaneCollection", "Segment",
           "SegmentCollection", "Polygon", "PolygonCollection", "Triangle", "Rectangle", "Polyhedron", "Simplex", "Quadric",
           "QuadricCollection", "Conic", "Transformation", "TransformationCollection", "TensorDiagram", "LeviCivitaTensor", "KroneckerDelta",
           "Circle", "Ellipse", "Sphere", "Cone", "Cylinder", "PolytopeCollection", "RegularPolygon", "Cuboid", "cls", "LinearDependenceError",
           "NotCoplanar", "ValueError", "TypeError", "IndexError", "NotImplementedError", "RuntimeError", "GeometryException",
           "TensorComputationError", "IncompatibleShapeError", "NotReducible", "IncidenceError", "NoIncidence", "NotCollinear", "NotConcurrent"}
ALIAS_CLASSMETHODS = {"from_array", "from_tensor"}  # default copy=False: result shares the buffer of the argument
# attributes through which an object's buffer (or another cached object) is reached
ALIAS_ATTRS = {"array", "_line", "_plane", "T", "real", "imag", "flat", "_cache", "normalized_array", "vertices", "_covariant_indices",
               "_contravariant_indices", "_nodes", "_unused_indices", "_node_positions", "_contraction_list", "facets", "faces",
               "covariant_tensor", "contravariant_tensor", "dependent_values"}
FRESH_ATTRS = {"basis_matrix", "_edges", "edges", "shape", "rank", "dim", "dtype", "free_indices", "tensor_shape", "isinf", "isreal", "size",
               "base_point", "direction", "general_point", "dual", "components", "is_degenerate", "midpoint", "length", "area", "volume", "center",
               "radius", "foci", "centroid", "circumcenter", "angles", "inradius", "lie_coordinates", "pdim", "is_dual", "ndim", "__class__",
               "__dict__", "__name__", "nin", "name"}


class Site:
    def __init__(self, file, func, lineno, kind, target, status, why):
        self.file, self.func, self.lineno, self.kind, self.target, self.status, self.why = file, func, lineno, kind, target, status, why

    def name(self):
        return "%s:%s:%d:%s" % (self.file, self.func, self.lineno, self.kind)


def worst(*xs):
    return max(xs) if xs else F


class FuncAnalysis(ast.NodeVisitor):
    def __init__(self, file, cls, fn):
        self.file, self.cls, self.fn = file, cls, fn
        self.env = {}
        self.sites = []
        self.is_init = fn.name in ("__init__", "__new__")
        args = fn.args
        for a in args.posonlyargs + args.args + args.kwonlyargs:
            self.env[a.arg] = (B, B)
        if args.vararg:
            self.env[args.vararg.arg] = (F, B)  # the tuple is new, its elements are the caller's
        if args.kwarg:
            self.env[args.kwarg.arg] = (F, F)  # **kwargs is a new dict per call; storing keys into it is local
        if "out" in self.env:
            # an explicit `out` parameter is in the assigns clause of the function (numpy convention);
            # callers are checked at their own `out=` sites
            self.env["out"] = (F, F)
        if self.is_init and (args.args and args.args[0].arg == "self"):
            # the object under construction is new; its attributes are being set up
            self.env["self"] = (F, B)

    # ---- expression status: (object, buffer) -------------------------------------------------------------
    def st(self, e):
        if e is None:
            return (F, F)
        if isinstance(e, ast.Constant):
            return (F, F)
        if isinstance(e, ast.Name):
            if e.id in self.env:
                return self.env[e.id]
            if e.id in ("np", "math"):
                return (F, F)
            if e.id in CLASSES or e.id in G_FRESH or e.id in PY_FRESH:
                return (F, F)
            return (B, B)  # module global (I, J, infty, absolute_conic, ...)
        if isinstance(e, (ast.BinOp, ast.UnaryOp, ast.Compare, ast.BoolOp, ast.JoinedStr, ast.ListComp, ast.SetComp, ast.DictComp, ast.GeneratorExp,
                          ast.Lambda)):
            return (F, F)
        if isinstance(e, (ast.List, ast.Tuple, ast.Set)):
            return (F, worst(*[self.st(x)[1] for x in e.elts]))
        if isinstance(e, ast.Dict):
            return (F, F)
        if isinstance(e, ast.IfExp):
            a, b = self.st(e.body), self.st(e.orelse)
            return (worst(a[0], b[0]), worst(a[1], b[1]))
        if isinstance(e, ast.Starred):
            return self.st(e.value)
        if isinstance(e, ast.Attribute):
            key = self._attr_key(e)
            if key is not None and key in self.env:
                return self.env[key]
            base = self.st(e.value)
            if e.attr in FRESH_ATTRS:
                return (F, F)
            if e.attr in ALIAS_ATTRS:
                # reaching the shared buffer / cached sub-object of the base
                return (base[1], base[1])
            if isinstance(e.value, ast.Name) and e.value.id in ("np", "math"):
                return (F, F)
            if isinstance(e.value, ast.Attribute) and isinstance(e.value.value, ast.Name) and e.value.value.id == "np":
                return (F, F)
            return (worst(base[0], U), worst(base[1], U))
        if isinstance(e, ast.Subscript):
            base = self.st(e.value)
            if self._is_fancy(e.slice):
                return (F, F)  # advanced indexing with an index list copies
            if isinstance(e.value, ast.Attribute) and e.value.attr in ("shape",):
                return (F, F)
            return (base[1], base[1]) if base[1] != F else (F, F)
        if isinstance(e, ast.Call):
            return self.st_call(e)
        if isinstance(e, ast.NamedExpr):
            return self.st(e.value)
        return (U, U)

    def _attr_key(self, e):
        if isinstance(e, ast.Attribute) and isinstance(e.value, ast.Name):
            return "%s.%s" % (e.value.id, e.attr)
        return None

    def _is_fancy(self, sl):
        for n in ast.walk(sl):
            if isinstance(n, ast.List):
                return True
        return False

    def _kw(self, call, name):
        for k in call.keywords:
            if k.arg == name:
                return k.value
        return None

    def st_call(self, c):
        f = c.func
        args = list(c.args)
        if isinstance(f, ast.Call) and isinstance(f.func, ast.Name) and f.func.id == "type":
            # type(x)(y, ...): constructor of a tensor class; copies its data unless copy=False
            cp = self._kw(c, "copy")
            if cp is not None and isinstance(cp, ast.Constant) and cp.value is False:
                return (F, worst(*[self.st(a)[1] for a in args]) if args else F)
            return (F, F)
        if isinstance(f, ast.Name):
            n = f.id
            if n == "cast":
                return self.st(args[1])
            if n in PY_FRESH:
                if n in ("list", "tuple", "sorted", "reversed") and args:
                    return (F, self.st(args[0])[1])  # new container, same elements
                return (F, F)
            if n in G_FRESH:
                return (F, F)
            if n in CLASSES:
                cp = self._kw(c, "copy")
                if cp is not None and isinstance(cp, ast.Constant) and cp.value is False:
                    return (F, worst(*[self.st(a)[1] for a in args]) if args else F)
                if any(isinstance(k.value, ast.Name) and k.arg is None for k in c.keywords):
                    # **kwargs may carry copy=False
                    return (F, worst(*[self.st(a)[1] for a in args]) if args else F)
                return (F, F)
            if n in self.env:
                return (U, U)
            return (U, U)
        if isinstance(f, ast.Attribute):
            # np.<fn>
            if isinstance(f.value, ast.Name) and f.value.id == "np":
                if f.attr == "array":
                    cp = self._kw(c, "copy")
                    if cp is not None and isinstance(cp, ast.Constant) and cp.value is False:
                        return (F, self.st(args[0])[1])
                    if any(k.arg is None for k in c.keywords):
                        return (F, self.st(args[0])[1])  # **kwargs may carry copy=False
                    return (F, F)
                if f.attr in NP_VIEW:
                    s = worst(*[self.st(a)[1] for a in args[:1]]) if args else F
                    if f.attr == "broadcast_arrays":
                        s = worst(*[self.st(a)[1] for a in args])
                    return (s, s)
                if f.attr in NP_FRESH:
                    out = self._kw(c, "out")
                    if out is not None and not (isinstance(out, ast.Constant) and out.value is None):
                        return self.st(out)
                    return (F, F)
                return (U, U)
            if isinstance(f.value, ast.Attribute) and isinstance(f.value.value, ast.Name) and f.value.value.id == "np":
                if f.attr in NP_LINALG_FRESH:
                    return (F, F)
                return (U, U)
            if isinstance(f.value, ast.Name) and f.value.id == "math":
                return (F, F)
            # classmethods that alias
            if f.attr in ALIAS_CLASSMETHODS:
                return (F, worst(*[self.st(a)[1] for a in args]) if args else F)
            base = self.st(f.value)
            if f.attr == "copy":
                # Tensor.copy(): new object, shared buffer.  list.copy()/ndarray.copy(): new buffer as well
                if isinstance(f.value, ast.Attribute) and f.value.attr in ("_nodes", "_unused_indices", "_node_positions", "_contraction_list"):
                    return (F, F)
                return (F, base[1])
            if f.attr in M_VIEW:
                return (base[1], base[1])
            cp = self._kw(c, "copy")
            if cp is not None and not (isinstance(cp, ast.Constant) and cp.value is True):
                # x.astype(dtype, copy=False) and friends may return x itself
                return (base[1], base[1])
            if f.attr in M_FRESH:
                return (F, F)
            if isinstance(f.value, ast.Call) and isinstance(f.value.func, ast.Name) and f.value.func.id == "super":
                # super().method(...): the overridden method of the same family
                if f.attr in ("__getitem__",):
                    return (F, worst(self.env.get("self", (B, B))[1]))
                if f.attr in ("__init__", "_validate_tensor"):
                    return (F, F)
                return (F, F) if f.attr in M_FRESH or f.attr.startswith("__") else (U, U)
            if isinstance(f.value, ast.Name) and f.value.id in CLASSES:
                return (F, F)
            return (U, U)
        return (U, U)

    # ---- statements ------------------------------------------------------------------------------------
    def bind(self, target, status):
        if isinstance(target, ast.Name):
            self.env[target.id] = status
        elif isinstance(target, (ast.Tuple, ast.List)):
            for t in target.elts:
                self.bind(t, (status[1], status[1]) if status != (F, F) else (F, F))
        elif isinstance(target, ast.Starred):
            self.bind(target.value, status)

    def write_site(self, node, target, kind):
        """target expression is written in place"""
        if isinstance(target, ast.Subscript):
            base = target.value
            if isinstance(base, ast.Attribute) and base.attr == "_cache" and self.is_init and self.cls in ("LeviCivitaTensor", "KroneckerDelta"):
                # documented exception: the class caches may gain keys (the arrays handed out stay BORROWED for everyone else)
                return
            s = self.st(base)
            # subscript store on a Tensor object goes to its array: the buffer must be fresh
            status = s[1]
            self.sites.append(Site(self.file, self.qual(), node.lineno, kind, ast.unparse(target)[:60], status, "buffer of `%s`" % ast.unparse(base)[:40]))
        elif isinstance(target, ast.Attribute):
            s = self.st(target.value)
            status = s[0]
            self.sites.append(Site(self.file, self.qual(), node.lineno, kind, ast.unparse(target)[:60], status, "object `%s`" % ast.unparse(target.value)[:40]))
        elif isinstance(target, ast.Name):
            s = self.st(target)
            self.sites.append(Site(self.file, self.qual(), node.lineno, kind, target.id, s[1], "value of `%s`" % target.id))
        else:
            s = self.st(target)
            self.sites.append(Site(self.file, self.qual(), node.lineno, kind, ast.unparse(target)[:60], worst(*s), "expression"))

    def qual(self):
        return (self.cls + "." if self.cls else "") + self.fn.name

    def scan_calls(self, node):
        for n in ast.walk(node):
            if isinstance(n, ast.Call):
                out = self._kw(n, "out")
                if out is not None and not (isinstance(out, ast.Constant) and out.value is None):
                    self.write_site(n, out, "out=")
                f = n.func
                if isinstance(f, ast.Attribute) and f.attr in ("append", "extend", "insert", "pop", "remove", "sort", "clear", "update", "add", "fill", "resize", "setflags", "put", "itemset", "__setitem__", "popitem", "discard"):
                    # mutating method: receiver must be fresh (kwargs.setdefault is handled as dict of this call)
                    s = self.st(f.value)
                    st = s[1] if not isinstance(f.value, ast.Attribute) else s[0] if False else s[1]
                    self.sites.append(Site(self.file, self.qual(), n.lineno, "call." + f.attr, ast.unparse(f.value)[:60], st, "receiver of mutating method"))

    def run(self):
        self.block(self.fn.body)
        return self.sites

    def block(self, stmts):
        for s in stmts:
            self.stmt(s)

    def stmt(self, s):
        if isinstance(s, (ast.FunctionDef, ast.AsyncFunctionDef, ast.ClassDef)):
            return  # nested definitions are analysed separately
        if isinstance(s, ast.Assign):
            self.scan_calls(s.value)
            val = self.st(s.value)
            for t in s.targets:
                for tt in (t.elts if isinstance(t, (ast.Tuple, ast.List)) else [t]):
                    if isinstance(tt, (ast.Subscript, ast.Attribute)):
                        self.write_site(s, tt, "store")
                    key = self._attr_key(tt)
                    if key is not None:
                        self.env[key] = val  # flow-sensitive: the attribute now holds this value
                self.bind(t, val)
                # storing a borrowed value into a fresh object's attribute keeps that attribute borrowed (handled by ALIAS_ATTRS)
        elif isinstance(s, ast.AnnAssign):
            if s.value is not None:
                self.scan_calls(s.value)
                self.bind(s.target, self.st(s.value))
        elif isinstance(s, ast.AugAssign):
            self.scan_calls(s.value)
            t = s.target
            if isinstance(t, ast.Name):
                cur = self.env.get(t.id)
                # scalars / strings / tuples are rebound, not mutated: recognise counters initialised from constants or sizes
                if cur is not None and cur == (F, F) and t.id in self._scalars:
                    return
                self.write_site(s, t, "augassign")
            elif isinstance(t, ast.Attribute):
                # x.attr op= v : in-place operation on the VALUE of the attribute (e.g. r.array *= 2 on a shallow copy)
                v = self.st(t)
                self.sites.append(Site(self.file, self.qual(), s.lineno, "augassign", ast.unparse(t)[:60], worst(*v), "value of attribute `%s`" % ast.unparse(t)[:40]))
            else:
                self.write_site(s, t, "augassign")
        elif isinstance(s, ast.Expr):
            self.scan_calls(s.value)
        elif isinstance(s, ast.Return):
            if s.value is not None:
                self.scan_calls(s.value)
        elif isinstance(s, ast.If):
            self.scan_calls(s.test)
            env0 = dict(self.env)
            self.block(s.body)
            env1 = self.env
            self.env = dict(env0)
            self.block(s.orelse)
            self.env = self.merge(env1, self.env)
        elif isinstance(s, (ast.For, ast.AsyncFor)):
            self.scan_calls(s.iter)
            it = self.st(s.iter)
            self.bind(s.target, (it[1], it[1]))
            env0 = dict(self.env)
            self.block(s.body)
            self.block(s.body)  # second pass: loop-carried aliases
            self.block(s.orelse)
            self.env = self.merge(env0, self.env)
        elif isinstance(s, ast.While):
            self.scan_calls(s.test)
            env0 = dict(self.env)
            self.block(s.body)
            self.block(s.body)
            self.env = self.merge(env0, self.env)
        elif isinstance(s, ast.With):
            for it in s.items:
                self.scan_calls(it.context_expr)
            self.block(s.body)
        elif isinstance(s, ast.Try):
            env0 = dict(self.env)
            self.block(s.body)
            envs = [self.env]
            for h in s.handlers:
                self.env = dict(env0)
                if h.name:
                    self.env[h.name] = (F, B)
                self.block(h.body)
                envs.append(self.env)
            self.env = envs[0]
            for e in envs[1:]:
                self.env = self.merge(self.env, e)
            self.block(s.orelse)
            self.block(s.finalbody)
        elif isinstance(s, (ast.Raise, ast.Assert, ast.Delete, ast.Pass, ast.Break, ast.Continue, ast.Import, ast.ImportFrom, ast.Global, ast.Nonlocal)):
            for n in ast.iter_child_nodes(s):
                self.scan_calls(n)
        else:
            for n in ast.iter_child_nodes(s):
                if isinstance(n, ast.stmt):
                    self.stmt(n)

    def merge(self, a, b):
        out = {}
        for k in set(a) | set(b):
            x, y = a.get(k), b.get(k)
            if x is None:
                out[k] = y
            elif y is None:
                out[k] = x
            else:
                out[k] = (worst(x[0], y[0]), worst(x[1], y[1]))
        return out

    @property
    def _scalars(self):
        """names that are only ever bound to numbers/strings: targets of `x = <const/len/int expr>`"""
        if not hasattr(self, "_sc"):
            sc = set()
            nonsc = set()
            for n in ast.walk(self.fn):
                if isinstance(n, ast.Assign) and len(n.targets) == 1 and isinstance(n.targets[0], ast.Name):
                    v = n.value
                    ok = isinstance(v, ast.Constant) or (isinstance(v, ast.JoinedStr)) or (
                        isinstance(v, ast.Call) and isinstance(v.func, ast.Name) and v.func.id in ("len", "int", "float", "str", "sum")) or (
                        isinstance(v, ast.Attribute) and v.attr in ("rank", "dim", "ndim", "free_indices"))
                    (sc if ok else nonsc).add(n.targets[0].id)
            for a in self.fn.args.args + self.fn.args.kwonlyargs:
                ann = a.annotation
                if ann is not None and ast.unparse(ann).strip("'").strip('"') in ("int", "int | None", "float", "bool", "str"):
                    sc.add(a.arg)
            self._sc = sc - nonsc
        return self._sc


def analyse_file(path, rel):
    tree = ast.parse(open(path).read())
    sites = []

    def visit(node, cls):
        for n in node.body if hasattr(node, "body") else []:
            if isinstance(n, ast.ClassDef):
                visit(n, n.name)
            elif isinstance(n, (ast.FunctionDef, ast.AsyncFunctionDef)):
                if (cls, n.name) in MUTATORS:
                    continue
                fa = FuncAnalysis(rel, cls, n)
                # scalar parameters (annotated int/float/str) are rebound by augmented assignment
                for a in n.args.args + n.args.kwonlyargs:
                    if a.arg in fa._scalars:
                        fa.env[a.arg] = (F, F)
                sites.extend(fa.run())
                # nested functions
                for m in ast.walk(n):
                    if m is not n and isinstance(m, ast.FunctionDef):
                        sites.extend(FuncAnalysis(rel, cls, m).run())

    visit(tree, None)
    return sites


def analyse_repo(repo):
    base = os.path.join(repo, "geometer")
    files = sorted(glob.glob(os.path.join(base, "*.py")) + glob.glob(os.path.join(base, "utils", "*.py")))
    sites = []
    nfun = 0
    for f in files:
        rel = os.path.relpath(f, repo)
        sites.extend(analyse_file(f, rel))
        nfun += sum(isinstance(n, ast.FunctionDef) for n in ast.walk(ast.parse(open(f).read())))
    return sites, nfun, [os.path.relpath(f, repo) for f in files]


def check_numpy_table():
    """differential test of the view/copy table on concrete arrays"""
    import numpy as np

    a = np.arange(24.0).reshape(2, 3, 4)
    bad = []
    fresh_samples = {
        "zeros_like": lambda: np.zeros_like(a), "stack": lambda: np.stack([a, a]), "append": lambda: np.append(a, a, axis=0),
        "concatenate": lambda: np.concatenate([a, a]), "einsum": lambda: np.einsum("ijk->kji", a) if False else np.einsum("ijk,ijk->ijk", a, a),
        "matmul": lambda: np.matmul(a, np.swapaxes(a, -1, -2)), "where": lambda: np.where(a > 3, a, a), "delete": lambda: np.delete(a, 0, axis=0),
        "roll": lambda: np.roll(a, 1, axis=0), "tile": lambda: np.tile(a, (1, 1, 1)), "abs": lambda: np.abs(a), "flip": lambda: np.flip(a, 0).copy(),
        "conj": lambda: np.conj(a.astype(complex)), "astype": lambda: a.astype(float), "take_along_axis": lambda: np.take_along_axis(a, np.zeros((2, 3, 1), dtype=int), 2),
        "fancy": lambda: a[..., [0, 1], :], "arith": lambda: a + 0, "array": lambda: np.array(a), "empty_like": lambda: np.empty_like(a),
        "multiply": lambda: np.multiply(a, 1), "divide": lambda: np.divide(a, 1), "cross": lambda: np.cross(a[..., :3], a[..., :3]),
    }
    for k, f in fresh_samples.items():
        if np.shares_memory(f(), a):
            bad.append("fresh:" + k)
    view_samples = {
        "asarray": lambda: np.asarray(a), "swapaxes": lambda: np.swapaxes(a, 0, 1), "moveaxis": lambda: np.moveaxis(a, 0, 1), "reshape": lambda: np.reshape(a, (6, 4)),
        "expand_dims": lambda: np.expand_dims(a, 0), "squeeze": lambda: np.squeeze(a[None]), "real_if_close": lambda: np.real_if_close(a),
        "transpose": lambda: np.transpose(a), "diagonal": lambda: np.diagonal(a), "broadcast_arrays": lambda: np.broadcast_arrays(a, a)[0],
        "slice": lambda: a[..., 0, :], "array_copy_false": lambda: np.array(a, copy=False), "T": lambda: a.T,
    }
    for k, f in view_samples.items():
        if not np.shares_memory(f(), a):
            bad.append("view:" + k)
    return bad, len(fresh_samples) + len(view_samples)

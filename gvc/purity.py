"""Native purity monitor (replay harness and bounded supplement for C12): a pool of geometer objects, a list of
public operations / property reads applied to them, and a byte-exact snapshot comparison of every array reachable
from the pool, the module constants and the class caches after each call.

  python -m gvc.purity [--site <file:func:line>]   -> JSON on the last line
"""
from __future__ import annotations

import itertools
import json
import sys
import warnings

import numpy as np


def build_pool():
    import geometer as g
    from geometer.shapes import Segment, Polygon, PolygonCollection, Triangle, Rectangle, Cuboid, SegmentCollection, RegularPolygon, Simplex
    from geometer.transformation import rotation, translation, TransformationCollection

    pool = {}
    pool["pf2"] = g.Point([2.0, 4.0, 2.0])  # float dtype, last coordinate != 1
    pool["pcf2"] = g.PointCollection([[1.0, 2.0, 4.0], [3.0, 0.0, -2.0]])
    pool["pf3"] = g.Point([2.0, 4.0, 6.0, 2.0])
    pool["axf3"] = g.Point(1.0, 2.0, 2.0)  # float, already normalised, not of unit length (rotation axes)
    pool["lf2"] = g.Line(3.0, 4.0, -10.0)  # float hyperplanes with non-unit normals and non-zero offsets (mirrors, distances)
    pool["ef3"] = g.Plane(1.0, 2.0, 2.0, -9.0)
    pool["ff3"] = g.Plane(2.0, 4.0, 4.0, 5.0)  # parallel to ef3
    pool["p2"] = g.Point(1, 2)
    pool["q2"] = g.Point(-3, 0.5)
    pool["r2"] = g.Point(2, -1)
    pool["pinf2"] = g.Point([1, 1, 0])
    pool["l2"] = g.Line(1, 2, 3)
    pool["m2"] = g.Line(0, 1, -1)
    pool["pc2"] = g.PointCollection([[0, 0, 1], [1, 0, 1], [1, 1, 1], [0, 2, 2]])
    pool["lc2"] = g.LineCollection([[1, 0, 0], [0, 1, 0], [1, 1, -1]])
    pool["p3"] = g.Point(1, 2, 3)
    pool["q3"] = g.Point(0, -1, 1)
    pool["r3"] = g.Point(2, 0, 0)
    pool["e3"] = g.Plane(1, 2, 3, 4)
    pool["f3"] = g.Plane(0, 0, 1, -1)
    pool["l3"] = g.Line(g.Point(0, 0, 0), g.Point(1, 1, 1))
    pool["m3"] = g.Line(g.Point(0, 0, 0), g.Point(1, 0, 2))
    pool["pc3"] = g.PointCollection([[0, 0, 0, 1], [1, 0, 0, 1], [1, 1, 0, 1], [0.5, 0.5, 1, 1]])
    pool["ec3"] = g.PlaneCollection([[0, 0, 1, 0], [1, 0, 0, -1], [1, 1, 1, -3]])
    pool["conic"] = g.Conic.from_points(g.Point(1, 0), g.Point(0, 1), g.Point(-1, 0), g.Point(0, -1), g.Point(0.6, 0.8))
    pool["circle"] = g.Circle(g.Point(1, 1), 2)
    pool["sphere"] = g.Sphere(g.Point(0, 0, 1), 2)
    pool["quadcol"] = g.QuadricCollection([np.eye(3), np.diag([1, 2, -1])])
    pool["segf"] = Segment(g.Point([0.0, 0.0, 2.0]), g.Point([4.0, 2.0, 2.0]))
    pool["polyf"] = Polygon(g.Point([0.0, 0.0, 2.0]), g.Point([4.0, 0.0, 2.0]), g.Point([4.0, 4.0, 2.0]), g.Point([0.0, 4.0, -1.0]) if False else g.Point([0.0, 8.0, 2.0]))
    pool["seg2"] = Segment(g.Point(0, 0), g.Point(2, 1))
    pool["seg3"] = Segment(g.Point(0, 0, 0), g.Point(2, 1, 1))
    pool["segc"] = SegmentCollection([[[0, 0, 1], [1, 1, 1]], [[1, 0, 1], [0, 1, 1]]])
    pool["tri2"] = Triangle(g.Point(0, 0), g.Point(4, 0), g.Point(0, 4))
    pool["poly2"] = Polygon(g.Point(0, 0), g.Point(2, 0), g.Point(2, 2), g.Point(1, 1), g.Point(0, 2))
    a, b, c, d = g.Point(0, 0, 1), g.Point(1, 0, 1), g.Point(1, 1, 1), g.Point(0, 1, 1)
    pool["poly3"] = Polygon(a, b, c, d)
    pool["polyc3"] = PolygonCollection(np.stack([Polygon(a, b, c, d).array, (Polygon(a, b, c, d) + g.Point(0, 0, 1)).array]))
    pool["cube"] = Cuboid(g.Point(0, 0, 0), g.Point(1, 0, 0), g.Point(0, 1, 0), g.Point(0, 0, 1))
    pool["reg"] = RegularPolygon(g.Point(1, 1), 2, 5)
    pool["t2"] = rotation(0.3) * translation(1, 2)
    pool["t3"] = rotation(0.5, axis=g.Point(1, 2, 3)) * translation(1, 0, 2)
    pool["tc2"] = TransformationCollection([rotation(0.2).array, translation(1, 1).array])
    return pool


def _arrays_of(obj, seen=None, prefix=""):
    """(name, ndarray) for every array reachable through the attributes of a tensor-like object"""
    out = []
    if seen is None:
        seen = set()
    if id(obj) in seen:
        return out
    seen.add(id(obj))
    if isinstance(obj, np.ndarray):
        out.append((prefix, obj))
        return out
    d = getattr(obj, "__dict__", None)
    if isinstance(d, dict):
        for k, v in d.items():
            out += _arrays_of(v, seen, prefix + "." + k)
    if isinstance(obj, (list, tuple)):
        for i, v in enumerate(obj):
            out += _arrays_of(v, seen, prefix + "[%d]" % i)
    return out


def snapshot(pool):
    import geometer as g
    import geometer.base as gb
    import geometer.curve as gc

    items = []
    for k, v in pool.items():
        items += _arrays_of(v, None, k)
    for k in ("I", "J", "infty", "infty_plane"):
        items += _arrays_of(getattr(g, k), None, "const." + k)
    items += _arrays_of(gc.absolute_conic, None, "const.absolute_conic")
    for k, v in gb.LeviCivitaTensor._cache.items():
        items.append(("cache.eps[%s]" % (k,), v))
    for k, v in gb.KroneckerDelta._cache.items():
        items.append(("cache.delta[%s]" % (k,), v))
    meta = {}
    for k, v in pool.items():
        d = getattr(v, "__dict__", {})
        meta[k] = {a: (sorted(x) if isinstance(x, set) else x) for a, x in d.items() if isinstance(x, (set, bool, int, str, type(None)))}
    return {n: (a.tobytes(), a.shape, str(a.dtype)) for n, a in items}, meta


def operations(pool):
    """(name, thunk) list: unary property reads and methods, binary operations between compatible pool objects"""
    import geometer as g
    import geometer.operators as go

    ops = []
    props = ["normalized_array", "isinf", "isreal", "basis_matrix", "general_point", "base_point", "direction", "covariant_tensor", "contravariant_tensor",
             "vertices", "facets", "edges", "faces", "area", "centroid", "angles", "midpoint", "length", "volume", "circumcenter", "center", "radius",
             "inradius", "is_degenerate", "components", "dual", "foci", "T", "shape", "rank", "tensor_shape", "size", "_edges", "lie_coordinates"]
    for k, v in pool.items():
        for p in props:
            if hasattr(type(v), p):
                ops.append(("%s.%s" % (k, p), (lambda v=v, p=p: getattr(v, p))))
        for m in ("copy", "inverse", "is_zero", "_normalized_projection"):
            if hasattr(v, m):
                ops.append(("%s.%s()" % (k, m), (lambda v=v, m=m: getattr(v, m)())))
        ops.append(("repr(%s)" % k, (lambda v=v: repr(v))))
        ops.append(("%s*2" % k, (lambda v=v: v * 2)))
        ops.append(("-%s" % k, (lambda v=v: -v)))
        ops.append(("%s[0]" % k, (lambda v=v: v[0])))
        ops.append(("list(%s)" % k, (lambda v=v: list(v) if hasattr(v, "__iter__") else None)))
    names = list(pool)
    binary = ["join", "meet", "contains", "intersect", "mirror", "perpendicular", "parallel", "project", "is_parallel", "is_coplanar", "tangent",
              "polar", "is_tangent", "__add__", "__sub__", "__eq__", "__mul__", "apply"]
    for a, b in itertools.permutations(names, 2):
        va, vb = pool[a], pool[b]
        if getattr(va, "dim", None) != getattr(vb, "dim", None):
            continue
        for m in binary:
            if hasattr(va, m):
                ops.append(("%s.%s(%s)" % (a, m, b), (lambda va=va, vb=vb, m=m: getattr(va, m)(vb))))
        ops.append(("dist(%s,%s)" % (a, b), (lambda va=va, vb=vb: go.dist(va, vb))))
        ops.append(("angle(%s,%s)" % (a, b), (lambda va=va, vb=vb: go.angle(va, vb))))
        ops.append(("is_perpendicular(%s,%s)" % (a, b), (lambda va=va, vb=vb: go.is_perpendicular(va, vb))))
    for a, b, c in (("p2", "q2", "r2"), ("p3", "q3", "r3")):
        ops.append(("harmonic_set", (lambda a=a, b=b: go.harmonic_set(pool[a], pool[b], g.Point((pool[a].array + 2 * pool[b].array))))))
        ops.append(("angle3", (lambda a=a, b=b, c=c: go.angle(pool[a], pool[b], pool[c]))))
        ops.append(("join3", (lambda a=a, b=b, c=c: g.join(pool[a], pool[b], pool[c]) if pool[a].dim == 3 else None)))
        ops.append(("is_collinear", (lambda a=a, b=b, c=c: go.is_collinear(pool[a], pool[b], pool[c]))))
    ops.append(("crossratio.lines", lambda: go.crossratio(g.Line(1, 0, 0), g.Line(0, 1, 0), g.Line(1, 1, 0), g.Line(1, 2, 0))))
    ops.append(("polyc3.area-then-contains", lambda: (pool["polyc3"].area, pool["polyc3"].contains(g.PointCollection([[0.5, 0.5, 1, 1], [0.5, 0.5, 2, 1]])))))
    ops.append(("poly3.area", lambda: pool["poly3"].area))
    ops.append(("cube.intersect", lambda: pool["cube"].intersect(pool["l3"])))
    from geometer.transformation import rotation as _rot, translation as _tr, reflection as _refl, scaling as _sc
    from geometer.shapes import RegularPolygon as _RP
    for k in ("axf3", "pf3", "p3", "q3"):
        ops.append(("rotation(axis=%s)" % k, (lambda k=k: _rot(0.7, axis=pool[k]))))
        ops.append(("translation(%s)" % k, (lambda k=k: _tr(pool[k]))))
        ops.append(("RegularPolygon(axis=%s)" % k, (lambda k=k: _RP(pool["r3"], 2, 5, axis=pool[k]))))
    for k in ("pf2", "p2"):
        ops.append(("translation(%s)" % k, (lambda k=k: _tr(pool[k]))))
    for k in ("l2", "m2", "e3", "f3", "lf2", "ef3", "ff3"):
        ops.append(("reflection(%s)" % k, (lambda k=k: _refl(pool[k]))))
    ops.append(("t2**3", lambda: pool["t2"] ** 3))
    ops.append(("t3**-1", lambda: pool["t3"] ** -1))
    return ops


def run(max_ops=None):
    warnings.simplefilter("ignore")
    np.seterr(all="ignore")
    pool = build_pool()
    before, meta0 = snapshot(pool)
    mutations = []
    n = 0
    errors = 0
    for name, thunk in operations(pool):
        if max_ops is not None and n >= max_ops:
            break
        n += 1
        try:
            thunk()
        except RecursionError:
            errors += 1
        except Exception:
            errors += 1
        after, meta1 = snapshot(pool)
        changed = [k for k in before if k in after and after[k] != before[k]]
        # state that APPEARS on an operand (e.g. a memoised attribute) is a mutation as well; the class-level epsilon/delta caches may grow
        changed += ["new:" + k for k in after if k not in before and not k.startswith("cache.")]
        changed += ["gone:" + k for k in before if k not in after and not k.startswith("cache.")]
        changed += ["meta:" + k for k in meta0 if meta1.get(k) != meta0[k]]
        if changed:
            mutations.append(dict(operation=name, changed=changed[:6]))
            # continue from the new state so that every mutating operation is reported once
            before, meta0 = after, meta1
            if len(mutations) >= 10:
                break
    return dict(operations=n, raised=errors, mutations=mutations, arrays_watched=len(before))


if __name__ == "__main__":
    r = run()
    print("@@RESULT@@" + json.dumps(r))

"""Path exploration: run a harness repeatedly with a decision prefix; every ``bool(SymBool)`` that
is not decided by the path condition forks.  Each path yields its path condition, the obligations
registered by the harness and the outcome."""
from __future__ import annotations

import time
import traceback

from gvc import sym as S
from gvc.sym import SymBool, EngineGap, band, bnot


class Infeasible(Exception):
    """the current path contradicts an assumption: abandon it silently"""


class PathLimit(Exception):
    pass


class Obligation:
    __slots__ = ("name", "hyps", "goal", "info", "path_id", "facts", "verdict")

    def __init__(self, name, hyps, goal, info=None):
        self.name = name
        self.hyps = hyps
        self.goal = goal
        self.info = info or {}
        self.path_id = None
        self.facts = []
        self.verdict = None


class Path:
    def __init__(self, pid, prefix):
        self.id = pid
        self.prefix = prefix
        self.pc = []  # list of SymBool (already signed)
        self.known = {}  # key -> bool
        self.forks = []  # decisions taken at fork points
        self.obligations = []
        self.notes = []
        self.outcome = None  # ('return', value) | ('raise', exc) | ('gap', msg) | ('infeasible',)
        self.soft = []  # soft facts (true arg-max etc.) used only when searching counter-models


def _eval_known(b, known):
    """three-valued evaluation of a formula under known atom values"""
    op = b.op
    if op == "const":
        return b.args[0]
    k = b.key()
    if k in known:
        return known[k]
    if op in ("eq", "lt", "le"):
        return None
    if op == "not":
        v = _eval_known(b.args[0], known)
        return None if v is None else (not v)
    vals = [_eval_known(a, known) for a in b.args]
    if op == "and":
        if any(v is False for v in vals):
            return False
        if all(v is True for v in vals):
            return True
        return None
    if op == "or":
        if any(v is True for v in vals):
            return True
        if all(v is False for v in vals):
            return False
        return None
    raise ValueError(op)


class Explorer:
    def __init__(self, ring, oracle=None, max_paths=400, max_decisions=4000, time_limit=600.0):
        self.ring = ring
        self.oracle = oracle  # callable(pc_list, formula) -> True (implied) / False (contradicted) / None (both possible or unknown)
        self.max_paths = max_paths
        self.max_decisions = max_decisions
        self.time_limit = time_limit
        self.cache = {}
        self.cur = None
        self.stats = dict(paths=0, forks=0, oracle_calls=0, infeasible=0, gaps=0)

    # ---- hook interface -----------------------------------------------------------------------
    def note(self, what):
        if self.cur is not None:
            self.cur.notes.append(what)

    def _record(self, b, val):
        p = self.cur
        sb = b if val else bnot(b)
        p.pc.append(sb)
        p.known[b.key()] = val
        # unit propagation of conjunctions / negated disjunctions
        self._propagate(sb)

    def _propagate(self, sb):
        p = self.cur
        if sb.op == "and":
            for a in sb.args:
                if a.key() not in p.known:
                    p.known[a.key()] = True
                    self._propagate(a)
        elif sb.op == "not":
            a = sb.args[0]
            if a.key() not in p.known:
                p.known[a.key()] = False
            if a.op == "or":
                for x in a.args:
                    if x.key() not in p.known:
                        p.known[x.key()] = False
                        self._propagate(bnot(x))
        else:
            p.known.setdefault(sb.key(), True)

    def decide(self, b):
        p = self.cur
        if p is None:
            raise RuntimeError("symbolic decision outside of an exploration: %r" % (b,))
        v = _eval_known(b, p.known)
        if v is not None:
            return v
        if len(p.pc) > self.max_decisions:
            raise EngineGap("too many decisions on one path")
        if time.time() - self.t0 > self.time_limit:
            raise PathLimit("exploration time limit")
        verdict = None
        if self.oracle is not None:
            ck = (tuple(x.key() for x in p.pc), b.key())
            if ck in self.cache:
                verdict = self.cache[ck]
            else:
                self.stats["oracle_calls"] += 1
                verdict = self.oracle(p.pc, b, self.ring)
                self.cache[ck] = verdict
        if verdict is True or verdict is False:
            self._record(b, verdict)
            return verdict
        # genuine fork
        k = len(p.forks)
        if k < len(p.prefix):
            val = p.prefix[k]
        else:
            val = True
            self.work.append(list(p.forks) + [False])
            self.stats["forks"] += 1
        p.forks.append(val)
        self._record(b, val)
        return val

    def choose(self, tag=None):
        """nondeterministic boolean choice of an over-approximated leaf (no path-condition atom)"""
        p = self.cur
        k = len(p.forks)
        if k < len(p.prefix):
            val = p.prefix[k]
        else:
            val = True
            self.work.append(list(p.forks) + [False])
            self.stats["forks"] += 1
        p.forks.append(val)
        p.notes.append(("choice", tag, val))
        return val

    def assume(self, b):
        """add a hypothesis (requires) without forking"""
        p = self.cur
        b = S._tobool(b)
        v = _eval_known(b, p.known)
        if v is True:
            return
        if v is False:
            raise Infeasible()
        if self.oracle is not None:
            ck = (tuple(x.key() for x in p.pc), b.key())
            verdict = self.cache.get(ck, "?")
            if verdict == "?":
                self.stats["oracle_calls"] += 1
                verdict = self.oracle(p.pc, b, self.ring)
                self.cache[ck] = verdict
            if verdict is False:
                raise Infeasible()
        self._record(b, True)

    def soft(self, b):
        self.cur.soft.append(b)

    def oblige(self, name, goal, info=None):
        p = self.cur
        goal = S._tobool(goal)
        ob = Obligation(name, list(p.pc), goal, info)
        ob.path_id = p.id
        ob.facts = list(self.ring.facts)
        ob.info['meta'] = self.ring.meta
        ob.info.setdefault("soft", list(p.soft))
        p.obligations.append(ob)
        return ob

    # ---- driver -------------------------------------------------------------------------------
    def run(self, harness):
        """harness(ex) is executed once per path.  Returns list of Path."""
        self.work = [[]]
        paths = []
        self.t0 = time.time()
        S.HOOK = self
        S.set_ring(self.ring)
        try:
            while self.work:
                prefix = self.work.pop()
                if len(paths) >= self.max_paths:
                    raise PathLimit("more than %d paths" % self.max_paths)
                p = Path(len(paths), prefix)
                self.cur = p
                self.ring.reset_spares()
                try:
                    r = harness(self)
                    p.outcome = ("return", r)
                except Infeasible:
                    p.outcome = ("infeasible",)
                    self.stats["infeasible"] += 1
                except EngineGap as e:
                    p.outcome = ("gap", str(e) + " @ " + _where(e))
                    self.stats["gaps"] += 1
                except PathLimit:
                    raise
                except Exception as e:  # harness must catch expected exceptions itself
                    p.outcome = ("raise", e, traceback.format_exc())
                p.relations = list(self.ring.relations)
                p.facts = list(self.ring.facts)
                p.meta = dict(self.ring.meta)
                paths.append(p)
                self.stats["paths"] += 1
        finally:
            self.cur = None
            S.HOOK = S._Hook()
        return paths


def _where(e):
    tb = e.__traceback__
    frames = traceback.extract_tb(tb)
    for fr in reversed(frames):
        if "/gvc/" not in fr.filename:
            return "%s:%d" % (fr.filename.split("/")[-1], fr.lineno)
    return ""

"""Back ends that discharge obligations  hyps => goal.

NF   - the goal is the constant True after normal form / relation rewriting, or follows from the
       hypotheses by three-valued evaluation of the formula (no search).
ALG  - field mode: refute every conjunct of DNF(hyps & ~goal) by exact linear algebra over Q(i)
       (a disequality polynomial lies in the span of the equalities) or by a Groebner basis.
SMT  - real mode: z3 (QF_NRA) on hyps & ~goal; cvc5 on z3's unknowns.
Refutations always come with a concrete point; an obligation without proof and without a point
is *undecided*.
"""
from __future__ import annotations

import itertools
import os
import random
import subprocess
import tempfile
import time
from fractions import Fraction

import z3

from gvc import sym as S
from gvc.sym import Sym, SymBool, band, bnot, bor, TRUE, FALSE, _split_ri, _has_i, _red
from gvc.explore import _eval_known


class Verdict:
    def __init__(self, status, backend, seconds, model=None, detail=""):
        self.status = status  # 'proved' | 'refuted' | 'unknown'
        self.backend = backend
        self.seconds = seconds
        self.model = model  # dict name -> Fraction | (Fraction, Fraction) | float
        self.detail = detail

    def __repr__(self):
        return "Verdict(%s,%s,%.2fs%s)" % (self.status, self.backend, self.seconds, "," + self.detail if self.detail else "")


# ---------------------------------------------------------------------------------------------
# z3 translation (real mode)


class Z3Tr:
    def __init__(self, ring, meta):
        self.ring = ring
        self.meta = meta or {}
        self.vars = {}
        self.pcache = {}

    def var(self, k):
        v = self.vars.get(k)
        if v is None:
            v = z3.Real(self.ring.names[k])
            self.vars[k] = v
        return v

    def poly_ri(self, p):
        """(re, im) z3 terms of polynomial p"""
        key = id(p)
        re_terms, im_terms = [], []
        for m, c in p.items():
            t = None
            for k, e in enumerate(m):
                if k == 0 or not e:
                    continue
                v = self.var(k)
                for _ in range(e):
                    t = v if t is None else t * v
            c = int(c)
            t = z3.RealVal(c) if t is None else (t if c == 1 else z3.RealVal(c) * t)
            (im_terms if m[0] % 2 else re_terms).append(t)
        re = z3.Sum(re_terms) if len(re_terms) > 1 else (re_terms[0] if re_terms else z3.RealVal(0))
        im = z3.Sum(im_terms) if len(im_terms) > 1 else (im_terms[0] if im_terms else z3.RealVal(0))
        return re, im, bool(im_terms)

    def formula(self, b):
        op = b.op
        if op == "const":
            return z3.BoolVal(b.args[0])
        if op == "not":
            return z3.Not(self.formula(b.args[0]))
        if op == "and":
            return z3.And(*[self.formula(a) for a in b.args])
        if op == "or":
            return z3.Or(*[self.formula(a) for a in b.args])
        s = b.args[0]
        re, im, has_im = self.poly_ri(s.n)
        if op == "eq":
            if has_im:
                return z3.And(re == 0, im == 0)
            return re == 0
        if has_im:
            raise S.EngineGap("ordering of complex value")
        if not (s.d.is_ground):
            dre, _, _ = self.poly_ri(s.d)
            re = re * dre
        return re < 0 if op == "lt" else re <= 0

    def gen_facts(self, used):
        """defining relations of leaf generators that occur"""
        out = []
        todo = set(used)
        done = set()
        while todo:
            k = todo.pop()
            if k in done:
                continue
            done.add(k)
            m = self.meta.get(k)
            if not m:
                continue
            kind = m["kind"]
            g = self.var(k)
            if kind == "sqrt":
                a = m["arg"]
                nre, nim, has_im = self.poly_ri(a.n)
                if has_im:
                    raise S.EngineGap("complex radicand in real mode")
                dre, _, _ = self.poly_ri(a.d)
                out.append(g * g * dre == nre)
                out.append(g >= 0)
                todo |= a.free_gens()
            elif kind == "cbrt":
                a = m["arg"]
                nre, nim, has_im = self.poly_ri(a.n)
                dre, _, _ = self.poly_ri(a.d)
                out.append(g * g * g * dre == nre)
                todo |= a.free_gens()
            elif kind in ("pos", "scale"):
                out.append(g > 0)
            elif kind == "sin":
                c = self.var(m["cos"])
                out.append(g * g + c * c == 1)
                todo.add(m["cos"])
            elif kind == "cos":
                pass
            elif kind == "rel":
                for r in m.get("rels", []):
                    out.append(self.formula(r))
                    for at in r.atoms():
                        todo |= at.args[0].free_gens()
        return out


def _gens_of(formulas):
    used = set()
    for f in formulas:
        for a in f.atoms():
            used |= a.args[0].free_gens()
    return used


def _z3_model_to_dict(tr, model):
    out = {}
    exact = True
    for k, v in tr.vars.items():
        val = model.eval(v, model_completion=True)
        name = tr.ring.names[k]
        if z3.is_rational_value(val):
            out[name] = Fraction(val.numerator_as_long(), val.denominator_as_long())
        else:
            exact = False
            try:
                out[name] = float(val.approx(20).as_decimal(20).rstrip("?"))
            except Exception:
                out[name] = None
    return out, exact


def z3_check(ring, meta, formulas, timeout_ms, want_model=False, seed=0):
    tr = Z3Tr(ring, meta)
    fs = [tr.formula(f) for f in formulas]
    fs += tr.gen_facts(_gens_of(formulas))
    s = z3.SolverFor("QF_NRA")
    s.set("timeout", int(timeout_ms))
    if seed:
        s.set("random_seed", seed)
    for f in fs:
        s.add(f)
    r = s.check()
    if r == z3.sat:
        if want_model:
            m, exact = _z3_model_to_dict(tr, s.model())
            return "sat", m, exact, s
        return "sat", None, None, s
    if r == z3.unsat:
        return "unsat", None, None, s
    return "unknown", None, None, s


def cvc5_check(smt2_text, timeout_s):
    with tempfile.NamedTemporaryFile("w", suffix=".smt2", delete=False, dir=os.environ.get("GVC_TMP", None)) as f:
        f.write(smt2_text)
        name = f.name
    try:
        out = subprocess.run(
            ["/usr/bin/cvc5", "--tlimit=%d" % int(timeout_s * 1000), name], capture_output=True, text=True, timeout=timeout_s + 5
        )
        first = out.stdout.strip().split("\n")[0] if out.stdout.strip() else ""
        return first
    except Exception:
        return "unknown"
    finally:
        try:
            os.unlink(name)
        except OSError:
            pass


def _ideal_step(ring, hyps, goal, meta, budget):
    """ID back end: an equality goal whose polynomial lies in the ideal generated by the equalities among the hypotheses
    (and the defining relations of the leaf generators) holds.  Exact: span first, then a Groebner basis (time-limited)."""
    if goal.op != "eq":
        return None
    eqs = []
    for h in hyps:
        if h.op == "eq":
            eqs.append(h.args[0].n)
        elif h.op == "and":
            eqs += [a.args[0].n for a in h.args if a.op == "eq"]
    used = _gens_of(list(hyps) + [goal])
    req, _ = _relation_polys(ring, meta, used)
    eqs += req
    if not eqs:
        return None
    target = goal.args[0].n
    if _in_span(target, eqs):
        return "id-span"
    # span with multipliers of degree 1: target == sum_i (c_i + sum_v c_iv * v) * e_i, v ranging over the generators of the target
    tv = set()
    for m in target:
        for k, e in enumerate(m):
            if e and k:
                tv.add(k)
    if len(tv) * len(eqs) <= 600:
        ext = list(eqs)
        for k in sorted(tv):
            g = ring.gens[k]
            ext += [_red(e * g) for e in eqs]
        if _in_span(target, ext):
            return "id-span-deg1"
    r = _groebner_member(target, eqs, ring, budget)
    return "id-groebner" if r else None


def prove_real(ring, hyps, goal, meta, facts, timeout_s=30.0, seed=0):
    t0 = time.time()
    allh = list(hyps) + list(facts)
    try:
        b = _ideal_step(ring, allh, goal, meta, min(30.0, timeout_s / 3))
        if b:
            return Verdict("proved", b, time.time() - t0)
    except S.EngineGap:
        pass
    neg = bnot(goal)
    try:
        r, model, exact, solver = z3_check(ring, meta, allh + [neg], timeout_s * 1000, want_model=True, seed=seed)
    except S.EngineGap as e:
        return Verdict("unknown", "smt-z3", time.time() - t0, detail="gap: %s" % e)
    if r == "unsat":
        return Verdict("proved", "smt-z3", time.time() - t0)
    if r == "sat":
        # angles are not polynomial symbols: recover them from the values of their (cos, sin) generator pair
        try:
            import math as _math

            for k, m in (meta or {}).items():
                if m.get("kind") == "sin" and isinstance(m.get("arg"), str):
                    sv = model.get(ring.names[k])
                    cv = model.get(ring.names[m["cos"]])
                    if sv is not None and cv is not None:
                        model[m["arg"]] = Fraction(_math.atan2(float(sv), float(cv))).limit_denominator(10 ** 9)
        except Exception:
            pass
        return Verdict("refuted", "smt-z3", time.time() - t0, model=model, detail="exact" if exact else "approx")
    # z3 unknown -> cvc5
    try:
        txt = "(set-logic QF_NRA)\n" + solver.to_smt2().replace("(set-info :status unknown)", "")
        first = cvc5_check(txt, min(timeout_s, 60.0))
    except Exception:
        first = "unknown"
    if first == "unsat":
        return Verdict("proved", "smt-cvc5", time.time() - t0)
    return Verdict("unknown", "smt", time.time() - t0, detail="z3 unknown, cvc5 %s" % first)


def oracle_real(timeout_ms=1500):
    def oracle(pc, b, ring):
        meta = ring.meta
        facts = list(ring.facts)
        try:
            r1, _, _, _ = z3_check(ring, meta, list(pc) + facts + [b], timeout_ms)
            if r1 == "unsat":
                return False
            r2, _, _, _ = z3_check(ring, meta, list(pc) + facts + [bnot(b)], timeout_ms)
            if r2 == "unsat":
                return True
        except S.EngineGap:
            return None
        return None

    return oracle


# ---------------------------------------------------------------------------------------------
# field mode: exact algebra


def _dnf(f, limit=512):
    """DNF of a formula as list of (eqs, neqs) with polynomial numerators; order atoms unsupported here"""
    # negation normal form first
    def nnf(b, pos):
        op = b.op
        if op == "const":
            v = b.args[0] if pos else not b.args[0]
            return ("const", v)
        if op == "not":
            return nnf(b.args[0], not pos)
        if op in ("and", "or"):
            kids = [nnf(a, pos) for a in b.args]
            o = op if pos else ("or" if op == "and" else "and")
            return (o, kids)
        if op == "eq":
            return ("lit", b.args[0].n, pos)
        raise S.EngineGap("order atom in field mode")

    def dnf(t):
        if t[0] == "const":
            return [([], [])] if t[1] else []
        if t[0] == "lit":
            return [([t[1]], [])] if t[2] else [([], [t[1]])]
        if t[0] == "or":
            out = []
            for k in t[1]:
                out += dnf(k)
                if len(out) > limit:
                    raise S.EngineGap("DNF too large")
            return out
        if t[0] == "and":
            out = [([], [])]
            for k in t[1]:
                dk = dnf(k)
                out = [(e1 + e2, n1 + n2) for (e1, n1) in out for (e2, n2) in dk]
                if len(out) > limit:
                    raise S.EngineGap("DNF too large")
            return out
        raise ValueError(t)

    return dnf(nnf(f, True))


def _in_span(p, eqs):
    """is polynomial p a Q(i)-linear combination of eqs?  exact Gaussian elimination on coefficient vectors"""
    if not p:
        return True
    if not eqs:
        return False
    monos = {}
    for q in list(eqs) + [p]:
        for m in q:
            mm = (0,) + m[1:]
            monos.setdefault(mm, len(monos))
    # complex coefficients as pairs; build matrix rows over Q(i) using python complex of Fractions
    def vec(q):
        v = [[Fraction(0), Fraction(0)] for _ in range(len(monos))]
        for m, c in q.items():
            j = monos[(0,) + m[1:]]
            if m[0] % 2:
                v[j][1] += int(c)
            else:
                v[j][0] += int(c)
        return [tuple(x) for x in v]

    rows = [vec(q) for q in eqs]
    target = vec(p)
    # eliminate
    piv_rows = []
    ncol = len(monos)
    zero = (Fraction(0), Fraction(0))
    for r in rows:
        r = list(r)
        for pc, pr in piv_rows:
            if r[pc] != zero:
                f = r[pc]
                r = [_csub(r[j], S.cmul(f, pr[j])) for j in range(ncol)]
        pc = next((j for j in range(ncol) if r[j] != zero), None)
        if pc is None:
            continue
        inv = S.cdiv((Fraction(1), Fraction(0)), r[pc])
        r = [S.cmul(inv, x) for x in r]
        piv_rows.append((pc, r))
    t = list(target)
    for pc, pr in piv_rows:
        if t[pc] != zero:
            f = t[pc]
            t = [_csub(t[j], S.cmul(f, pr[j])) for j in range(ncol)]
    return all(x == zero for x in t)


def _csub(a, b):
    return (a[0] - b[0], a[1] - b[1])


def _groebner_member(p, eqs, ring, time_limit=20.0):
    """p in ideal(eqs)?  over Q[I_, x...] with I_**2+1 added.  Returns True/False/None(timeout)"""
    from sympy.polys.groebnertools import groebner
    from sympy.polys.domains import QQ

    from sympy.polys.orderings import grevlex

    R = ring.R
    # only the generators that occur (a Groebner basis in 40+ unused variables is needlessly slow)
    used = set()
    for q in list(eqs) + [p]:
        for m in q:
            for k, e in enumerate(m):
                if e:
                    used.add(k)
    used.add(0)
    keep = sorted(used)
    from sympy.polys.rings import ring as _mkring

    RQ, *_g = _mkring([ring.names[k] for k in keep], QQ, grevlex)

    def conv(q):
        return RQ.from_dict({tuple(m[k] for k in keep): QQ(int(c)) for m, c in q.items()})

    gens = [conv(q) for q in eqs if q]
    I = RQ.gens[0]
    gens.append(I * I + 1)
    import signal
    from gvc.alg import _Alarm

    def handler(signum, frame):
        raise _Alarm()

    old = signal.signal(signal.SIGALRM, handler)
    signal.setitimer(signal.ITIMER_REAL, time_limit)
    try:
        G = groebner(gens, RQ)
        pq = conv(p)
        _, rem = pq.div(G)
        return not rem
    except _Alarm:
        return None
    finally:
        signal.setitimer(signal.ITIMER_REAL, 0)
        signal.signal(signal.SIGALRM, old)


def _relation_polys(ring, meta, used):
    """defining equalities of the leaf generators that occur (as polynomials == 0) and
    nonzero facts (polynomials != 0)"""
    eqs, neqs = [], []
    todo = set(used)
    done = set()
    while todo:
        k = todo.pop()
        if k in done:
            continue
        done.add(k)
        m = (meta or {}).get(k)
        if not m:
            continue
        g = ring.gens[k]
        if m["kind"] == "sqrt":
            a = m["arg"]
            eqs.append(S._red(g * g * a.d - a.n))
            todo |= a.free_gens()
        elif m["kind"] == "sin":
            c = ring.gens[m["cos"]]
            eqs.append(g * g + c * c - 1)
        elif m["kind"] in ("pos", "scale"):
            neqs.append(g)
            if "inv" in m and k < m["inv"]:
                eqs.append(g * ring.gens[m["inv"]] - 1)
                todo.add(m["inv"])
        elif m["kind"] == "rel":
            for r in m.get("rels", []):
                for (e, n) in _dnf(r):
                    if len(_dnf(r)) == 1:
                        eqs += e
                        neqs += n
    return eqs, neqs


def _conj_unsat(eqs, neqs, ring, deep, budget):
    """is  AND(e == 0) AND AND(n != 0)  unsatisfiable?  True / None(unknown)"""
    eqs = [e for e in eqs if e]
    for n in neqs:
        if not n:
            return True
    for e in eqs:
        if e.is_ground:
            return True  # nonzero constant == 0
    # a disequality that is a multiple of ... cheap: n in span(eqs)
    for n in neqs:
        if _in_span(n, eqs):
            return True
    if deep and eqs:
        # 1 - t*prod(neqs) trick is expensive; test each n (and their product) for ideal membership
        for n in neqs:
            r = _groebner_member(n, eqs, ring, budget)
            if r:
                return True
        if len(neqs) > 1:
            prod = ring.one
            for n in neqs:
                prod = S._red(prod * n)
            r = _groebner_member(prod, eqs, ring, budget)
            if r:
                return True
        r = _groebner_member(ring.one, eqs, ring, budget)
        if r:
            return True
    return None


def prove_field(ring, hyps, goal, meta, facts, timeout_s=30.0, seed=0, soft=()):
    from gvc import alg

    t0 = time.time()
    fs = list(hyps) + list(facts) + [bnot(goal)]
    f = band(*fs)
    if f.op == "const" and not f.args[0]:
        return Verdict("proved", "nf", time.time() - t0)
    try:
        used = _gens_of([f])
        req, rneq = _relation_polys(ring, meta, used)
        old_meta = ring.meta
        ring.meta = meta or {}
        try:
            r, info = alg.decide(ring, fs, req, rneq, timeout_s=timeout_s, seed=seed)
        finally:
            ring.meta = old_meta
    except S.EngineGap as e:
        return Verdict("unknown", "alg", time.time() - t0, detail=str(e))
    if r == "unsat":
        return Verdict("proved", "alg", time.time() - t0)
    if r == "sat":
        return Verdict("refuted", "alg-point", time.time() - t0, model=info, detail="exact")
    return Verdict("unknown", "alg", time.time() - t0, detail=str(info))


def _linear_solve_var(e, ring):
    """if polynomial e is of the form c*x + rest (x a user generator not in rest, c nonzero integer) return (k, c, rest)"""
    nuser = 1 + len(ring.user_names)
    cand = {}
    for m, c in e.items():
        tot = sum(m)
        if tot == 1 and m[0] == 0:
            k = m.index(1)
            if k < nuser:
                cand[k] = c
    for k, c in cand.items():
        ok = True
        for m in e:
            if m[k] and sum(m) != 1:
                ok = False
                break
        if ok:
            return k, c
    return None


def find_point_field(ring, meta, conjs, req, rneq, seed=0, tries=100):
    """search a point (Gaussian rationals for user symbols) satisfying one of the conjunctions.
    Only conjunctions whose equalities can be solved by successive linear substitution are attempted;
    leaf generators must not occur (their values are not free)."""
    rnd = random.Random(seed)
    nuser = 1 + len(ring.user_names)
    for eqs, neqs in conjs:
        allp = list(eqs) + list(neqs)
        if any(any(any(m[k] for k in range(nuser, ring.ngens)) for m in p) for p in allp):
            continue
        for t in range(tries):
            span = 3 + t // 20
            vals = [None] * ring.ngens
            complex_pts = ring.mode == "field" and t % 3 == 2
            for k in range(1, nuser):
                re = Fraction(rnd.randint(-span, span))
                im = Fraction(rnd.randint(-span, span)) if complex_pts else Fraction(0)
                vals[k] = (re, im)
            # solve linear equalities one after the other
            ok = True
            pending = list(eqs)
            fixed = set()
            for _ in range(len(pending) + 1):
                progress = False
                rest = []
                for e in pending:
                    try:
                        v = S.eval_poly(e, vals)
                    except KeyError:
                        v = None
                    if v == (0, 0):
                        continue
                    ls = None
                    # find a variable that occurs linearly with constant coefficient and is not fixed
                    cands = []
                    for m, c in e.items():
                        if sum(m) == 1 and m[0] == 0:
                            k = m.index(1)
                            if k < nuser and k not in fixed and all((not mm[k]) or mm == m for mm in e):
                                cands.append((k, c))
                    if cands:
                        k, c = cands[0]
                        vals_k = vals[k]
                        vals[k] = (Fraction(0), Fraction(0))
                        r0 = S.eval_poly(e, vals)
                        vals[k] = S.cdiv((-r0[0], -r0[1]), (Fraction(int(c)), Fraction(0)))
                        fixed.add(k)
                        progress = True
                    else:
                        rest.append(e)
                pending = rest
                if not progress:
                    break
            try:
                if any(S.eval_poly(e, vals) != (0, 0) for e in eqs):
                    continue
                if any(S.eval_poly(n, vals) == (0, 0) for n in neqs):
                    continue
            except KeyError:
                continue
            return {ring.names[k]: (vals[k] if vals[k][1] != 0 else vals[k][0]) for k in range(1, nuser)}
    return None


def oracle_field(timeout_s=2.0):
    from gvc import alg

    def oracle(pc, b, ring):
        facts = list(ring.facts)
        try:
            base = list(pc) + facts
            used = _gens_of(base + [b])
            req, rneq = _relation_polys(ring, ring.meta, used)
            r, _ = alg.decide(ring, base + [bnot(b)], req, rneq, timeout_s=timeout_s, deep=False, want_model=False)
            if r == "unsat":
                return True
            r, _ = alg.decide(ring, base + [b], req, rneq, timeout_s=timeout_s, deep=False, want_model=False)
            if r == "unsat":
                return False
        except S.EngineGap:
            return None
        return None

    return oracle


# ---------------------------------------------------------------------------------------------


def prove(ring, ob, timeout_s=30.0, seed=0):
    """discharge one Obligation"""
    t0 = time.time()
    hyps, goal = ob.hyps, ob.goal
    meta = ob.info.get("meta")
    if goal.op == "const":
        if goal.args[0]:
            return Verdict("proved", "nf", time.time() - t0)
    else:
        known = {}
        for h in hyps:
            _prop(h, known)
        v = _eval_known(goal, known)
        if v is True:
            return Verdict("proved", "nf-pc", time.time() - t0)
    if ring.mode == "real":
        if goal.op == "and" and len(goal.args) <= 12:
            # prove the conjuncts one by one (an equivalence is two implications): smaller NRA queries
            tot = 0.0
            backends = set()
            for g in goal.args:
                v = prove_real(ring, hyps, g, meta, ob.facts, timeout_s, seed)
                backends.add(v.backend)
                if v.status != "proved":
                    v.seconds = time.time() - t0
                    v.detail = (v.detail + " [conjunct %s]" % repr(g)[:160]).strip()
                    return v
            return Verdict("proved", "+".join(sorted(backends)), time.time() - t0)
        return prove_real(ring, hyps, goal, meta, ob.facts, timeout_s, seed)
    if goal.op == "and":
        # prove the conjuncts one by one (keeps the negated goal a clause or a set of units)
        tot = 0.0
        backends = set()
        for g in goal.args:
            known = {}
            for h in hyps:
                _prop(h, known)
            if _eval_known(g, known) is True:
                continue
            v = prove_field(ring, hyps, g, meta, ob.facts, max(2.0, timeout_s - tot), seed)
            tot += v.seconds
            backends.add(v.backend)
            if v.status != "proved":
                v.seconds = time.time() - t0
                v.detail = (v.detail + " [conjunct %s]" % repr(g)[:200]).strip()
                return v
        return Verdict("proved", "+".join(sorted(backends)) or "nf-pc", time.time() - t0)
    return prove_field(ring, hyps, goal, meta, ob.facts, timeout_s, seed)


def _prop(sb, known):
    if sb.op == "and":
        for a in sb.args:
            _prop(a, known)
        known[sb.key()] = True
    elif sb.op == "not":
        a = sb.args[0]
        known[a.key()] = False
        if a.op == "or":
            for x in a.args:
                _prop(bnot(x), known)
    elif sb.op != "const":
        known[sb.key()] = True

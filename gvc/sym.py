"""Exact symbolic scalars for gvc.

A ``Sym`` is a rational function n/d over Z[i] in the symbols of the current
``SymRing`` (sympy sparse polynomials with integer coefficients; the imaginary
unit is the ring generator ``I_`` reduced modulo ``I_**2 + 1``; denominators are
kept free of ``I_``).  Extra generators introduced by leaf contracts (square
roots, norms, power-of-two scale factors, trigonometric pairs, ...) are taken
from a pool of spare generators and carry defining relations/assumptions that
are recorded in the ring.

A ``SymBool`` is a quantifier free formula over atoms ``p == 0``, ``p < 0``,
``p <= 0``.  Elementwise numpy comparisons produce SymBools without forking;
only Python's ``bool()`` asks the explorer for a decision (see explore.py).
"""
from __future__ import annotations

import math
import numbers
from fractions import Fraction

import numpy as np
from sympy.polys.domains import ZZ
from sympy.polys.rings import PolyElement, ring as _sring


TOLERANCE_CONSTANTS = (1e-8, 1e-15)


class EngineGap(Exception):
    """The engine cannot model an operation: the path is *undecided*, never a violation."""


class SymRing:
    def __init__(self, names, mode="real", spare=24):
        self.mode = mode  # 'real' | 'field'
        self.user_names = list(names)
        self.spare_names = ["g%d_" % k for k in range(spare)]
        allnames = ["I_"] + self.user_names + self.spare_names
        self.R, *gens = _sring(allnames, ZZ)
        self.names = allnames
        self.ngens = len(allnames)
        self.gens = gens
        self.index = {n: k for k, n in enumerate(allnames)}
        self.I = gens[0]
        self.zero = self.R.zero
        self.one = self.R.one
        self._next_spare = 1 + len(self.user_names)
        # generator metadata: index -> dict(kind=..., ...)
        self.meta = {}
        # relations: list of (polynomial == 0) that hold by construction of leaf generators
        self.relations = []  # list of Sym (numerators only matter) known to be zero
        # sign/non-zero facts of leaf generators: list of SymBool
        self.facts = []
        # memo for leaf generators (so that the same sqrt argument gives the same generator)
        self.memo = {}
        self.log = []
        # polynomials that occurred as denominators of matrix inverses / divisions: cheap exact-division
        # candidates used to keep rational functions reduced without multivariate gcds
        self.den_factors = []

    def sym(self, name):
        return Sym(self.gens[self.index[name]], self.one)

    def fresh(self, kind, **meta):
        if self._next_spare >= self.ngens - 1:  # the last generator is reserved (Rabinowitsch variable)
            raise EngineGap("spare generator pool exhausted")
        k = self._next_spare
        self._next_spare += 1
        self.meta[k] = dict(kind=kind, **meta)
        return Sym(self.gens[k], self.one)

    def note_den_factor(self, p):
        if p.is_ground or len(p) > 400:
            return
        p = _prim(p) if not _has_i(p) else p
        for q in self.den_factors:
            if q == p:
                return
        self.den_factors.append(p)
        if len(self.den_factors) > 12:
            self.den_factors.pop(0)

    def reset_spares(self):
        self._next_spare = 1 + len(self.user_names)
        self.meta = {}
        self.relations = []
        self.facts = []
        self.memo = {}
        self.den_factors = []


_CUR: SymRing | None = None


def set_ring(r):
    global _CUR
    _CUR = r


def cur() -> SymRing:
    if _CUR is None:
        raise RuntimeError("no SymRing active")
    return _CUR


# ---------------------------------------------------------------------------------------------
# explorer hook (installed by explore.py)
class _Hook:
    def decide(self, b):  # pragma: no cover - replaced
        raise RuntimeError("no explorer active for symbolic decision %r" % (b,))


HOOK = _Hook()


def _red(p):
    """Reduce powers of I_ (generator 0) with I_**2 = -1."""
    need = False
    for m in p:
        if m[0] > 1:
            need = True
            break
    if not need:
        return p
    out = {}
    for m, c in p.items():
        e = m[0]
        if e > 1:
            if (e // 2) % 2:
                c = -c
            m = (e % 2,) + m[1:]
        v = out.get(m, 0) + c
        if v:
            out[m] = v
        else:
            out.pop(m, None)
    return p.ring.from_dict(out)


def _has_i(p):
    for m in p:
        if m[0]:
            return True
    return False


def _conj_poly(p):
    if not _has_i(p):
        return p
    return p.ring.from_dict({m: (-c if m[0] % 2 else c) for m, c in p.items()})


def _split_ri(p):
    """real and imaginary part polynomials (all other generators regarded real)."""
    re, im = {}, {}
    for m, c in p.items():
        if m[0] % 2:
            im[(0,) + m[1:]] = c
        else:
            re[m] = c
    R = p.ring
    return R.from_dict(re), R.from_dict(im)


_CANCEL_LIMIT = 4000


class Sym:
    """n/d with n, d polynomials; d != 0 and free of I_."""

    __slots__ = ("n", "d", "special", "fac")
    __array_priority__ = 1000

    def __init__(self, n, d=None, special=None):
        self.n = n
        self.d = d if d is not None else n.ring.one
        self.special = special  # None | 'inf' | 'nan'
        self.fac = None  # optional tuple of Sym factors (self == product), kept by __mul__ for zero-product reasoning

    # -- construction ------------------------------------------------------------------------
    @staticmethod
    def const(v):
        R = cur()
        if isinstance(v, Sym):
            return v
        if isinstance(v, SymBool):
            return Sym.const(int(bool(v)))
        if isinstance(v, (bool, np.bool_)):
            return Sym(R.R(int(v)), R.one)
        if isinstance(v, (int, np.integer)):
            return Sym(R.R(int(v)), R.one)
        if isinstance(v, Fraction):
            return Sym(R.R(v.numerator), R.R(v.denominator))
        if isinstance(v, (float, np.floating)):
            v = float(v)
            if v in TOLERANCE_CONSTANTS:
                # stated idealisation: the library's tolerances (EQ_TOL_ABS = 1e-8, EQ_TOL_REL = 1e-15) are 0
                return Sym(R.zero, R.one)
            if math.isnan(v):
                return Sym(R.zero, R.one, "nan")
            if math.isinf(v):
                return Sym(R.zero, R.one, "inf")
            f = Fraction(v)
            # stated idealisation: a float literal that is the correctly rounded value of a small rational (1/6, 0.1, ...)
            # denotes that rational (IEEE arithmetic is treated as exact field arithmetic)
            g = f.limit_denominator(10 ** 6)
            if g != f and float(g) == v:
                f = g
            return Sym(R.R(f.numerator), R.R(f.denominator))
        if isinstance(v, (complex, np.complexfloating)):
            v = complex(v)
            re, im = Sym.const(v.real), Sym.const(v.imag)
            return re + im * Sym(R.I, R.one)
        if isinstance(v, np.ndarray) and v.ndim == 0:
            return Sym.const(v[()])
        raise TypeError("cannot make Sym from %r" % type(v))

    @staticmethod
    def _mk(n, d):
        """normalise sign/content cheaply"""
        if not n:
            return Sym(n, n.ring.one)
        if d.is_ground:
            c = d.LC
            if c == 1:
                return Sym(n, d)
            g = math.gcd(int(c), int(n.content()))
            if c < 0:
                g = -g
            if g != 1:
                n = n.quo_ground(g)
                d = d.quo_ground(g)
            return Sym(n, d)
        if d.LC < 0:
            n, d = -n, -d
        R = _CUR
        if R is not None and R.den_factors:
            for f in R.den_factors:
                if len(f) > len(d):
                    continue
                while True:
                    try:
                        d2 = d.exquo(f)
                    except Exception:
                        break
                    try:
                        n2 = n.exquo(f)
                    except Exception:
                        break
                    n, d = n2, d2
                    if d.is_ground:
                        return Sym._mk(n, d)
        if len(n) * len(d) <= _CANCEL_LIMIT:
            if n == d:
                return Sym(n.ring.one, n.ring.one)
            try:
                if _has_i(n):
                    re, im = _split_ri(n)
                    g = re.gcd(im).gcd(d) if im else re.gcd(d)
                    if not g.is_ground:
                        n = n.exquo(g)
                        d = d.exquo(g)
                        if d.LC < 0:
                            n, d = -n, -d
                    if d.is_ground:
                        return Sym._mk(n, d)
                else:
                    n, d = n.cancel(d)
                    if d.is_ground:
                        return Sym._mk(n, d)
            except Exception:
                pass
        return Sym(n, d)

    # -- predicates --------------------------------------------------------------------------
    def is_const(self):
        return self.special is None and self.n.is_ground and self.d.is_ground

    def const_value(self):
        """exact Fraction / complex-Fraction pair for constants"""
        re, im = _split_ri(self.n)
        if not (re.is_ground and im.is_ground and self.d.is_ground):
            raise ValueError("not constant")
        dd = int(self.d.LC) if self.d else 1
        r = Fraction(int(re.LC) if re else 0, dd)
        i = Fraction(int(im.LC) if im else 0, dd)
        return r, i

    def is_zero_nf(self):
        return self.special is None and not self.n

    # -- arithmetic --------------------------------------------------------------------------
    def _coerce(self, o):
        if isinstance(o, Sym):
            return o
        if isinstance(o, (SymBool, numbers.Number, np.number, np.bool_)):
            return Sym.const(o)
        if isinstance(o, np.ndarray) and o.ndim == 0:
            return Sym.const(o[()])
        return None

    def __add__(self, o):
        if isinstance(o, np.ndarray) and o.ndim > 0:
            return _arr_op(lambda a, b: b + a, o, self)
        o = self._coerce(o)
        if o is None:
            return NotImplemented
        if self.special or o.special:
            return _special_add(self, o)
        if not o.n:
            return self
        if not self.n:
            return o
        if self.d is o.d or self.d == o.d:
            return Sym._mk(self.n + o.n, self.d)
        if self.d.is_ground and o.d.is_ground:
            a, b = int(self.d.LC), int(o.d.LC)
            l = a * b // math.gcd(a, b)
            return Sym._mk(self.n.mul_ground(l // a) + o.n.mul_ground(l // b), self.d.ring(l))
        return Sym._mk(self.n * o.d + o.n * self.d, self.d * o.d)

    __radd__ = __add__

    def __neg__(self):
        if self.special:
            return self
        return Sym(-self.n, self.d)

    def __pos__(self):
        return self

    def __sub__(self, o):
        if isinstance(o, np.ndarray) and o.ndim > 0:
            return _arr_op(lambda a, b: b - a, o, self)
        o = self._coerce(o)
        if o is None:
            return NotImplemented
        return self + (-o)

    def __rsub__(self, o):
        if isinstance(o, np.ndarray) and o.ndim > 0:
            return _arr_op(lambda a, b: a - b, o, self)
        o = self._coerce(o)
        if o is None:
            return NotImplemented
        return o + (-self)

    def __mul__(self, o):
        if isinstance(o, np.ndarray) and o.ndim > 0:
            return _arr_op(lambda a, b: b * a, o, self)
        o = self._coerce(o)
        if o is None:
            return NotImplemented
        if self.special or o.special:
            return _special_mul(self, o)
        if not self.n or not o.n:
            return Sym(self.n.ring.zero, self.n.ring.one)
        n = _red(self.n * o.n)
        if self.d.is_ground and o.d.is_ground and self.d.LC == 1 and o.d.LC == 1:
            r = Sym(n, self.d)
        else:
            r = Sym._mk(n, self.d * o.d)
        if type(self) is Sym and type(o) is Sym:
            fa = self.fac if self.fac is not None else ((self,) if not self.n.is_ground else ())
            fb = o.fac if o.fac is not None else ((o,) if not o.n.is_ground else ())
            if fa and fb and len(fa) + len(fb) <= 8:
                r.fac = fa + fb
            elif (fa and not fb) and self.fac is not None:
                r.fac = fa
            elif (fb and not fa) and o.fac is not None:
                r.fac = fb
        return r

    __rmul__ = __mul__

    def _inv(self):
        """1/self for self known non-zero"""
        n, d = self.n, self.d
        if _has_i(n):
            c = _conj_poly(n)
            nn = _red(n * c)  # real
            return Sym._mk(_red(d * c), nn)
        return Sym._mk(d, n)

    def __truediv__(self, o):
        if isinstance(o, np.ndarray) and o.ndim > 0:
            return _arr_op(lambda a, b: b / a, o, self)
        o = self._coerce(o)
        if o is None:
            return NotImplemented
        return _div(self, o)

    def __rtruediv__(self, o):
        if isinstance(o, np.ndarray) and o.ndim > 0:
            return _arr_op(lambda a, b: a / b, o, self)
        o = self._coerce(o)
        if o is None:
            return NotImplemented
        return _div(o, self)

    def __pow__(self, k):
        if isinstance(k, Sym):
            if k.is_const():
                r, i = k.const_value()
                if i == 0:
                    k = r
        if isinstance(k, (float, np.floating)):
            k = Fraction(float(k)).limit_denominator(64)
        if isinstance(k, (np.integer,)):
            k = int(k)
        if isinstance(k, Fraction) and k.denominator == 1:
            k = int(k)
        if isinstance(k, int):
            if self.special:
                if k == 0:
                    return Sym.const(1)
                return self if k > 0 else (Sym.const(0) if self.special == "inf" else self)
            if k == 0:
                return Sym.const(1)
            if k < 0:
                return _div(Sym.const(1), self) ** (-k)
            r = self
            out = None
            while k:
                if k & 1:
                    out = r if out is None else out * r
                k >>= 1
                if k:
                    r = r * r
            return out
        if isinstance(k, Fraction):
            return root_pow(self, k)
        return NotImplemented

    def __rpow__(self, b):
        # (-1) ** n with symbolic n never occurs; constants only
        if self.is_const():
            r, i = self.const_value()
            if i == 0 and r.denominator == 1:
                return Sym.const(b) ** int(r)
        raise EngineGap("symbolic exponent")

    def __abs__(self):
        return sym_abs(self)

    def __mod__(self, k):
        if self.is_const() and isinstance(k, (int, np.integer)):
            r, i = self.const_value()
            if i == 0:
                return Sym.const(r % int(k))
        raise EngineGap("modulo of a symbolic value")

    def __floordiv__(self, k):
        if self.is_const() and isinstance(k, (int, np.integer)):
            r, i = self.const_value()
            if i == 0:
                return Sym.const(r // int(k))
        raise EngineGap("floor division of a symbolic value")

    def conjugate(self):
        if self.special:
            return self
        if not _has_i(self.n):
            if cur().mode == "field" and not self.is_const():
                raise EngineGap("conjugate of a complex symbol (field mode)")
            return self
        if cur().mode == "field" and not self.is_const():
            raise EngineGap("conjugate of a complex symbol (field mode)")
        return Sym(_conj_poly(self.n), self.d)

    conj = conjugate

    @property
    def real(self):
        if not _has_i(self.n):
            if cur().mode == "field" and not self.is_const():
                raise EngineGap("real part of a complex symbol (field mode)")
            return self
        if cur().mode == "field" and not self.is_const():
            raise EngineGap("real part of a complex symbol (field mode)")
        re, im = _split_ri(self.n)
        return Sym._mk(re, self.d)

    @property
    def imag(self):
        if cur().mode == "field" and not self.is_const():
            raise EngineGap("imag part of a complex symbol (field mode)")
        re, im = _split_ri(self.n)
        return Sym._mk(im, self.d)

    # numpy object-dtype ufunc loops look these methods up by name
    def sqrt(self):
        return sym_sqrt(self)

    def cos(self):
        return trig(self)[0]

    def sin(self):
        return trig(self)[1]

    def arccos(self):
        raise EngineGap("arccos")

    def cbrt(self):
        return sym_cbrt(self)

    def log(self):
        raise EngineGap("log")

    # shape protocol so that geometer code can treat scalars like 0-d arrays
    ndim = 0
    shape = ()
    size = 1
    dtype = np.dtype(object)

    def astype(self, dtype):
        return self

    def item(self):
        return self

    def __getitem__(self, idx):
        # numpy 0-d arrays / scalars accept  x[...], x[()], x[..., None]
        from gvc.snp import wrap

        a = np.empty((), dtype=object)
        a[()] = self
        return wrap(a[idx])

    # -- comparisons -------------------------------------------------------------------------
    def __eq__(self, o):  # type: ignore[override]
        if isinstance(o, np.ndarray) and o.ndim > 0:
            return _arr_op(lambda a, b: a == b, o, self)
        o = self._coerce(o)
        if o is None:
            return NotImplemented
        return mk_eq0(self - o)

    def __ne__(self, o):  # type: ignore[override]
        if isinstance(o, np.ndarray) and o.ndim > 0:
            return _arr_op(lambda a, b: a != b, o, self)
        o = self._coerce(o)
        if o is None:
            return NotImplemented
        return bnot(mk_eq0(self - o))

    def __lt__(self, o):
        if isinstance(o, np.ndarray) and o.ndim > 0:
            return _arr_op(lambda a, b: a > b, o, self)
        o = self._coerce(o)
        if o is None:
            return NotImplemented
        return mk_cmp("lt", self - o)

    def __le__(self, o):
        if isinstance(o, np.ndarray) and o.ndim > 0:
            return _arr_op(lambda a, b: a >= b, o, self)
        o = self._coerce(o)
        if o is None:
            return NotImplemented
        return mk_cmp("le", self - o)

    def __gt__(self, o):
        if isinstance(o, np.ndarray) and o.ndim > 0:
            return _arr_op(lambda a, b: a < b, o, self)
        o = self._coerce(o)
        if o is None:
            return NotImplemented
        return mk_cmp("lt", o - self)

    def __ge__(self, o):
        if isinstance(o, np.ndarray) and o.ndim > 0:
            return _arr_op(lambda a, b: a <= b, o, self)
        o = self._coerce(o)
        if o is None:
            return NotImplemented
        return mk_cmp("le", o - self)

    def __hash__(self):
        return hash((self.n, self.d, self.special))

    def __bool__(self):
        # truthiness of a number: x != 0
        return bool(bnot(mk_eq0(self)))

    def __float__(self):
        if self.is_const():
            r, i = self.const_value()
            if i == 0:
                return float(r)
        raise EngineGap("float() of a symbolic value")

    def __int__(self):
        if self.is_const():
            r, i = self.const_value()
            if i == 0 and r.denominator == 1:
                return int(r)
        raise EngineGap("int() of a symbolic value")

    __index__ = __int__

    def __complex__(self):
        if self.is_const():
            r, i = self.const_value()
            return complex(float(r), float(i))
        raise EngineGap("complex() of a symbolic value")

    def __repr__(self):
        if self.special:
            return self.special
        s = str(self.n.as_expr())
        if self.d.is_ground and self.d.LC == 1:
            return s
        return "(%s)/(%s)" % (s, self.d.as_expr())

    # -- helpers -----------------------------------------------------------------------------
    def free_gens(self):
        idx = set()
        for p in (self.n, self.d):
            for m in p:
                for k, e in enumerate(m):
                    if e:
                        idx.add(k)
        return idx

    def subs_values(self, values):
        """exact evaluation: values maps generator index -> Fraction or (Fraction, Fraction) complex pair.
        returns (re, im) Fractions; raises ZeroDivisionError"""
        n = eval_poly(self.n, values)
        d = eval_poly(self.d, values)
        if d == (0, 0):
            raise ZeroDivisionError
        return cdiv(n, d)


numbers.Number.register(Sym)


def cmul(a, b):
    return (a[0] * b[0] - a[1] * b[1], a[0] * b[1] + a[1] * b[0])


def cdiv(a, b):
    den = b[0] * b[0] + b[1] * b[1]
    return ((a[0] * b[0] + a[1] * b[1]) / den, (a[1] * b[0] - a[0] * b[1]) / den)


def eval_poly(p, values):
    """values: list indexed by generator -> (re, im) Fractions (None => generator must not occur)"""
    tr = Fraction(0)
    ti = Fraction(0)
    for m, c in p.items():
        vr, vi = Fraction(int(c)), Fraction(0)
        for k, e in enumerate(m):
            if e:
                if k == 0:
                    b = (Fraction(0), Fraction(1))
                else:
                    b = values[k]
                    if b is None:
                        raise KeyError(k)
                for _ in range(e):
                    vr, vi = cmul((vr, vi), b)
        tr += vr
        ti += vi
    return (tr, ti)


def _arr_op(f, arr, s):
    out = np.empty(arr.shape, dtype=object)
    flat = out.reshape(-1)
    for k, a in enumerate(arr.reshape(-1)):
        flat[k] = f(a, s)
    from gvc.snp import wrap  # late import

    return wrap(out)


def _special_add(a, b):
    R = cur()
    if a.special == "nan" or b.special == "nan":
        return Sym(R.zero, R.one, "nan")
    if a.special == "inf" and b.special == "inf":
        return Sym(R.zero, R.one, "nan")
    return Sym(R.zero, R.one, "inf")


def _special_mul(a, b):
    R = cur()
    if a.special == "nan" or b.special == "nan":
        return Sym(R.zero, R.one, "nan")
    other = b if a.special else a
    if other.special == "inf":
        return Sym(R.zero, R.one, "inf")
    # inf * x : nan iff x == 0
    if bool(mk_eq0(other)):
        return Sym(R.zero, R.one, "nan")
    return Sym(R.zero, R.one, "inf")


def _div(a, b):
    R = cur()
    if a.special or b.special:
        if a.special == "nan" or b.special == "nan":
            return Sym(R.zero, R.one, "nan")
        if a.special == "inf" and b.special == "inf":
            return Sym(R.zero, R.one, "nan")
        if a.special == "inf":
            return a
        return Sym(R.zero, R.one)  # finite / inf
    if b.is_const():
        if not b.n:
            if bool(mk_eq0(a)):
                return Sym(R.zero, R.one, "nan")
            return Sym(R.zero, R.one, "inf")
    else:
        # IEEE semantics: fork on a vanishing denominator
        if bool(mk_eq0(b)):
            HOOK.note("div0")
            if bool(mk_eq0(a)):
                return Sym(R.zero, R.one, "nan")
            return Sym(R.zero, R.one, "inf")
    if not a.n:
        return a
    if not b.is_const():
        for f in (b.fac or (b,)):
            if not _has_i(f.n):
                R.note_den_factor(f.n)
    inv = b._inv()
    return a * inv


# ---------------------------------------------------------------------------------------------
# SymBool


class SymBool:
    """formula: op in {'eq','lt','le','not','and','or','const'}"""

    __slots__ = ("op", "args", "_key")
    __array_priority__ = 1000

    def __init__(self, op, args):
        self.op = op
        self.args = args
        self._key = None

    def key(self):
        if self._key is None:
            if self.op in ("eq", "lt", "le"):
                p = self.args[0]
                self._key = (self.op, tuple(sorted(p.n.items())), tuple(sorted(p.d.items())))
            elif self.op == "const":
                self._key = ("const", self.args[0])
            else:
                self._key = (self.op,) + tuple(a.key() for a in self.args)
        return self._key

    def __hash__(self):
        return hash(self.key())

    def __bool__(self):
        if self.op == "const":
            return self.args[0]
        return HOOK.decide(self)

    def __invert__(self):
        return bnot(self)

    def __and__(self, o):
        if isinstance(o, np.ndarray):
            return _arr_op(lambda a, b: b & a, o, self)
        return band(self, _tobool(o))

    __rand__ = __and__

    def __or__(self, o):
        if isinstance(o, np.ndarray):
            return _arr_op(lambda a, b: b | a, o, self)
        return bor(self, _tobool(o))

    __ror__ = __or__

    def __xor__(self, o):
        o = _tobool(o)
        return bor(band(self, bnot(o)), band(bnot(self), o))

    __rxor__ = __xor__

    def __eq__(self, o):  # type: ignore[override]
        if isinstance(o, np.ndarray):
            return _arr_op(lambda a, b: b == a, o, self)
        if isinstance(o, (SymBool, bool, np.bool_)):
            o = _tobool(o)
            return bor(band(self, o), band(bnot(self), bnot(o)))
        return Sym.const(self) == o

    def __ne__(self, o):  # type: ignore[override]
        return bnot(self.__eq__(o))

    # numeric use of a boolean forces a decision
    def _num(self):
        return Sym.const(int(bool(self)))

    def __add__(self, o):
        return self._num() + o

    __radd__ = __add__

    def __mul__(self, o):
        return self._num() * o

    __rmul__ = __mul__

    def __sub__(self, o):
        return self._num() - o

    def __rsub__(self, o):
        return o - self._num()

    def __int__(self):
        return int(bool(self))

    __index__ = __int__

    ndim = 0
    shape = ()

    def __repr__(self):
        if self.op == "const":
            return str(self.args[0])
        if self.op in ("eq", "lt", "le"):
            return "%s %s 0" % (self.args[0], {"eq": "==", "lt": "<", "le": "<="}[self.op])
        if self.op == "not":
            return "~(%r)" % (self.args[0],)
        return "(" + (" & " if self.op == "and" else " | ").join(repr(a) for a in self.args) + ")"

    def atoms(self, out=None):
        if out is None:
            out = []
        if self.op in ("eq", "lt", "le"):
            out.append(self)
        elif self.op != "const":
            for a in self.args:
                a.atoms(out)
        return out


TRUE = SymBool("const", (True,))
FALSE = SymBool("const", (False,))


def _tobool(o):
    if isinstance(o, SymBool):
        return o
    if isinstance(o, (bool, np.bool_)):
        return TRUE if o else FALSE
    if isinstance(o, (int, np.integer)) and o in (0, 1):
        return TRUE if o else FALSE
    if isinstance(o, Sym):
        return bnot(mk_eq0(o))
    raise TypeError("not a boolean: %r" % (o,))


def bnot(a):
    a = _tobool(a)
    if a.op == "const":
        return FALSE if a.args[0] else TRUE
    if a.op == "not":
        return a.args[0]
    return SymBool("not", (a,))


def band(*xs):
    out = []
    seen = set()
    for x in xs:
        x = _tobool(x)
        if x.op == "const":
            if not x.args[0]:
                return FALSE
            continue
        parts = x.args if x.op == "and" else (x,)
        for p in parts:
            k = p.key()
            if k not in seen:
                seen.add(k)
                out.append(p)
    if not out:
        return TRUE
    if len(out) == 1:
        return out[0]
    return SymBool("and", tuple(out))


def bor(*xs):
    out = []
    seen = set()
    for x in xs:
        x = _tobool(x)
        if x.op == "const":
            if x.args[0]:
                return TRUE
            continue
        parts = x.args if x.op == "or" else (x,)
        for p in parts:
            k = p.key()
            if k not in seen:
                seen.add(k)
                out.append(p)
    if not out:
        return FALSE
    if len(out) == 1:
        return out[0]
    return SymBool("or", tuple(out))


def implies(a, b):
    return bor(bnot(a), b)


def iff(a, b):
    a, b = _tobool(a), _tobool(b)
    return band(implies(a, b), implies(b, a))


def _prim(p):
    """primitive, sign-normalised numerator (p == 0 unchanged by it)"""
    c = p.content()
    if c not in (0, 1):
        p = p.quo_ground(c)
    if p and p.LC < 0:
        p = -p
    return p


def _strip_positive_content(n):
    """divide a polynomial by the largest monomial in strictly positive generators (kinds pos / scale) common to all its
    terms: neither zero-ness nor sign changes"""
    R = cur()
    if not R.meta or not n:
        return n
    pos = [k for k, m in R.meta.items() if m.get("kind") in ("pos", "scale")]
    if not pos:
        return n
    mins = {}
    for k in pos:
        mn = None
        for m in n:
            e = m[k]
            if mn is None or e < mn:
                mn = e
            if mn == 0:
                break
        if mn:
            mins[k] = mn
    if not mins:
        return n
    out = {}
    for m, c in n.items():
        mm = list(m)
        for k, e in mins.items():
            mm[k] -= e
        out[tuple(mm)] = c
    return n.ring.from_dict(out)


def mk_eq0(s):
    s = Sym.const(s) if not isinstance(s, Sym) else s
    if s.special:
        return FALSE
    if s.fac is not None and len(s.fac) > 1 and type(s) is Sym:
        # zero-product rule on a product whose factors are known
        return bor(*[mk_eq0(f) for f in s.fac])
    s = apply_relations(s)
    if not s.n:
        return TRUE
    if s.n.is_ground:
        return FALSE
    n = s.n
    if cur().mode == "real" and _has_i(n):
        re, im = _split_ri(n)
        return band(mk_eq0(Sym(re, s.d.ring.one)), mk_eq0(Sym(im, s.d.ring.one)))
    n = _strip_positive_content(n)
    if n.is_ground:
        return FALSE if n else TRUE
    if not _has_i(n):
        if _lane_rule_refutes(n):
            return FALSE
        n = _prim(n)
    return SymBool("eq", (Sym(n, n.ring.one),))


def _lane_rule_refutes(n):
    """n = c*x*w + b with w the power-of-two scale of a normalised lane containing the entry x, b a constant:
    |x*w| < 1 (frexp mantissa), so n == 0 is impossible when |b| >= |c|"""
    R = cur()
    for k, meta in R.meta.items():
        lane = meta.get("lane")
        if not lane:
            continue
        A, B = {}, {}
        ok = True
        for m, c in n.items():
            e = m[k]
            if e == 0:
                B[m] = c
            elif e == 1:
                A[m[:k] + (0,) + m[k + 1 :]] = c
            else:
                ok = False
                break
        if not ok or not A or not B:
            continue
        Bp = R.R.from_dict(B)
        if not Bp.is_ground:
            continue
        Ap = R.R.from_dict(A)
        b = abs(int(Bp.LC))
        cA = Ap.content()
        Aprim = Ap.quo_ground(cA) if cA not in (0, 1) else Ap
        for x in lane:
            cx = x.n.content()
            xprim = x.n.quo_ground(cx) if cx not in (0, 1) else x.n
            if Aprim == xprim or Aprim == -xprim:
                # A = (cA/cx) * x  (up to sign)
                if b * abs(int(cx)) >= abs(int(cA)):
                    return True
    return False


def mk_cmp(op, s):
    """s < 0 or s <= 0"""
    if s.special == "nan":
        return FALSE
    if s.special == "inf":
        raise EngineGap("ordering of an unsigned infinity")
    if cur().mode != "real":
        if s.is_const():
            r, i = s.const_value()
            if i == 0:
                return TRUE if (r < 0 if op == "lt" else r <= 0) else FALSE
        if type(s) is Sym and _is_positive_monomial(s):
            return FALSE
        if type(s) is Sym and _is_positive_monomial(-s):
            return TRUE
        raise EngineGap("order comparison in field mode")
    s = apply_relations(s)
    if _has_i(s.n):
        raise EngineGap("order comparison of a complex value")
    if not s.n:
        return TRUE if op == "le" else FALSE
    if s.is_const():
        r, _ = s.const_value()
        return TRUE if (r < 0 if op == "lt" else r <= 0) else FALSE
    n, d = s.n, s.d
    n = _strip_positive_content(n)
    d = _strip_positive_content(d)
    if n.is_ground and d.is_ground:
        v = Fraction(int(n.LC) if n else 0, int(d.LC))
        return TRUE if (v < 0 if op == "lt" else v <= 0) else FALSE
    if d.is_ground:
        # d > 0 by normalisation
        if d.LC < 0:
            n, d = -n, -d
        c = n.content()
        if c < 0:
            c = -c
        if c not in (0, 1):
            n = n.quo_ground(c)
        return SymBool(op, (Sym(n, n.ring.one),))
    return SymBool(op, (Sym(n, d),))


# ---------------------------------------------------------------------------------------------
# leaf generators


def apply_relations(s):
    """rewrite even powers of square-root generators, c**2+s**2 of trig pairs, using the ring relations"""
    R = cur()
    if not R.meta or s.special:
        return s
    pairs = [(k, m["inv"]) for k, m in R.meta.items() if m["kind"] == "scale" and "inv" in m and k < m["inv"]]
    if pairs:
        s = _cancel_pairs(s, pairs)
    changed = True
    guard = 0
    while changed and guard < 8:
        changed = False
        guard += 1
        for k, meta in R.meta.items():
            kind = meta["kind"]
            if kind == "sqrt":
                maxe = 0
                for p in (s.n, s.d):
                    for m in p:
                        if m[k] > maxe:
                            maxe = m[k]
                if maxe >= 2:
                    s = _subst_even_power(s, k, meta["arg"])
                    changed = True
            elif kind == "sin":
                # s**2 -> 1 - c**2
                maxe = 0
                for p in (s.n, s.d):
                    for m in p:
                        if m[k] > maxe:
                            maxe = m[k]
                if maxe >= 2:
                    c = Sym(R.gens[meta["cos"]], R.one)
                    s = _subst_even_power(s, k, Sym.const(1) - c * c)
                    changed = True
    return s


def _cancel_pairs(s, pairs):
    """v*w == 1 for scale generators and their inverse partners"""
    def conv(p):
        hit = False
        for m in p:
            for a, b in pairs:
                if m[a] and m[b]:
                    hit = True
                    break
            if hit:
                break
        if not hit:
            return p
        out = {}
        for m, c in p.items():
            mm = None
            for a, b in pairs:
                if m[a] and m[b]:
                    if mm is None:
                        mm = list(m)
                    t = min(mm[a], mm[b])
                    mm[a] -= t
                    mm[b] -= t
            if mm is not None:
                m = tuple(mm)
            v = out.get(m, 0) + c
            if v:
                out[m] = v
            else:
                out.pop(m, None)
        return p.ring.from_dict(out)

    n, d = conv(s.n), conv(s.d)
    if n is s.n and d is s.d:
        return s
    return Sym._mk(n, d)


def _subst_even_power(s, k, arg):
    """replace g_k**(2j) by arg**j in s (g_k**(2j+1) -> g_k*arg**j)"""
    R = cur()
    g = Sym(R.gens[k], R.one)

    def conv(p):
        # group by exponent of g_k
        groups = {}
        for m, c in p.items():
            e = m[k]
            mm = m[:k] + (0,) + m[k + 1 :]
            groups.setdefault(e, {})[mm] = c
        tot = Sym(R.zero, R.one)
        for e, dct in groups.items():
            base = Sym(R.R.from_dict(dct), R.one)
            t = base * (arg ** (e // 2)) if e >= 2 else base
            if e % 2:
                t = t * g
            tot = tot + t
        return tot

    n = conv(s.n)
    if any(m[k] for m in s.d):
        d = conv(s.d)
        # rationalise: d = a + b*g  ->  multiply by (a - b*g)
        if any(m[k] for m in d.n):
            a_, b_ = _split_gen(d, k)
            den = a_ * a_ - b_ * b_ * arg
            num = n * (a_ - b_ * g)
            num = _subst_even_power(num, k, arg) if any(m[k] >= 2 for m in num.n) else num
            return _div_nocheck(num, den)
        return _div_nocheck(n, d)
    return _div_nocheck(n, Sym(s.d, R.one))


def _split_gen(s, k):
    R = cur()
    a, b = {}, {}
    for m, c in s.n.items():
        if m[k] == 0:
            a[m] = c
        elif m[k] == 1:
            b[m[:k] + (0,) + m[k + 1 :]] = c
        else:
            raise EngineGap("unexpected power")
    return Sym._mk(R.R.from_dict(a), s.d), Sym._mk(R.R.from_dict(b), s.d)


def _div_nocheck(a, b):
    return a * b._inv()


def _is_positive_monomial(s):
    """s = c * product of generators known to be positive (kinds pos / scale), c > 0"""
    R = cur()
    if not (s.d.is_ground and len(s.n) == 1):
        return False
    (m, c), = s.n.items()
    if c <= 0 or m[0]:
        return False
    for k, e in enumerate(m):
        if e and R.meta.get(k, {}).get("kind") not in ("pos", "scale"):
            return False
    return True


def sym_abs(s):
    R = cur()
    if s.special:
        return s
    if type(s) is Sym and not s.is_const() and _is_positive_monomial(s):
        return s
    if s.is_const():
        r, i = s.const_value()
        if i == 0:
            return Sym.const(abs(r))
        # |a+bi|
        return sym_sqrt(Sym.const(r * r + i * i))
    if R.mode == "field":
        return AbsSym(s)
    if _has_i(s.n):
        # modulus of a complex value with real symbols
        re, im = s.real, s.imag
        return AbsSym(s, sq=re * re + im * im)
    return AbsSym(s)


class AbsSym(Sym):
    """|x|, lazily: only zero tests, arg-max and ordering against other absolute values are
    modelled without resolving; any arithmetic resolves it (sign fork, real mode)."""

    __slots__ = ("inner", "sq")

    def __init__(self, inner, sq=None):
        R = cur()
        Sym.__init__(self, R.zero, R.one)
        self.inner = inner
        self.sq = sq  # |x|**2 when x is complex

    def resolve(self):
        R = cur()
        if self.sq is not None:
            return sym_sqrt(self.sq)
        if R.mode != "real":
            raise EngineGap("absolute value of a complex symbol (field mode)")
        x = self.inner
        if bool(mk_cmp("lt", x)):
            return -x
        return x

    def square(self):
        return self.sq if self.sq is not None else self.inner * self.inner

    def is_const(self):
        return False

    def __abs__(self):
        return self

    def __add__(self, o):
        return self.resolve() + o

    __radd__ = __add__

    def __sub__(self, o):
        return self.resolve() - o

    def __rsub__(self, o):
        return o - self.resolve()

    def __mul__(self, o):
        if isinstance(o, AbsSym) and self.sq is None and o.sq is None:
            return AbsSym(self.inner * o.inner)
        oc = self._coerce(o) if not isinstance(o, np.ndarray) else None
        if oc is not None and oc.is_const() and not isinstance(oc, AbsSym):
            r, i = oc.const_value()
            if i == 0 and self.sq is None:
                if r >= 0:
                    return AbsSym(self.inner * oc)
                return -AbsSym(self.inner * oc).resolve()
        return self.resolve() * o

    __rmul__ = __mul__

    def __truediv__(self, o):
        if isinstance(o, AbsSym) and self.sq is None and o.sq is None:
            return AbsSym(self.inner / o.inner)
        return self.resolve() / o

    def __rtruediv__(self, o):
        return o / self.resolve()

    def __neg__(self):
        return -self.resolve()

    def __pow__(self, k):
        if isinstance(k, (int, np.integer)) and k % 2 == 0 and k >= 0:
            return self.square() ** (int(k) // 2)
        return self.resolve() ** k

    def __eq__(self, o):  # type: ignore[override]
        oc = self._coerce(o) if not isinstance(o, np.ndarray) else None
        if oc is not None and not isinstance(oc, AbsSym) and oc.is_zero_nf():
            return mk_eq0(self.inner)
        return self.resolve() == o

    def __ne__(self, o):  # type: ignore[override]
        return bnot(self.__eq__(o))

    def _cmp(self, o, op):
        # compare |x| with o
        oc = self._coerce(o) if not isinstance(o, np.ndarray) else None
        if oc is not None and not isinstance(oc, AbsSym) and oc.is_const():
            r, i = oc.const_value()
            if i == 0:
                if op == "gt":  # |x| > c
                    if r < 0:
                        return TRUE
                    if r == 0:
                        return bnot(mk_eq0(self.inner))
                if op == "ge":
                    if r <= 0:
                        return TRUE
                if op == "le":
                    if r < 0:
                        return FALSE
                    if r == 0:
                        return mk_eq0(self.inner)
                if op == "lt":
                    if r <= 0:
                        return FALSE
        if isinstance(oc, AbsSym) and cur().mode == "real":
            a, b = self.square(), oc.square()
            return {"lt": a < b, "le": a <= b, "gt": a > b, "ge": a >= b}[op]
        r = self.resolve()
        return {"lt": r < o, "le": r <= o, "gt": r > o, "ge": r >= o}[op]

    def __lt__(self, o):
        return self._cmp(o, "lt")

    def __le__(self, o):
        return self._cmp(o, "le")

    def __gt__(self, o):
        return self._cmp(o, "gt")

    def __ge__(self, o):
        return self._cmp(o, "ge")

    def __hash__(self):
        return hash(("abs", self.inner))

    def __bool__(self):
        return bool(bnot(mk_eq0(self.inner)))

    def sqrt(self):
        return sym_sqrt(self.resolve())

    def conjugate(self):
        return self

    conj = conjugate

    @property
    def real(self):
        return self

    @property
    def imag(self):
        return Sym.const(0)

    def free_gens(self):
        return self.inner.free_gens()

    def __repr__(self):
        return "|%r|" % (self.inner,)


def _perfect_square(s):
    """return t with t*t == s if s is syntactically a perfect square rational function, else None"""
    try:
        if not s.n:
            return s
        if _has_i(s.n):
            return None
        cn, fn = s.n.sqf_list()
        cd, fd = s.d.sqf_list()
    except Exception:
        return None
    R = cur()

    def root(c, fl):
        if c < 0:
            return None
        r = math.isqrt(int(c))
        if r * r != c:
            return None
        out = R.R(r)
        for f, e in fl:
            if e % 2:
                return None
            out = out * f ** (e // 2)
        return out

    rn, rd = root(cn, fn), root(cd, fd)
    if rn is None or rd is None:
        return None
    return Sym._mk(rn, rd)


def sym_sqrt(s, complex_ok=True):
    """principal square root (numpy semantics: real sqrt of negative real -> nan unless csqrt)"""
    R = cur()
    s = Sym.const(s) if not isinstance(s, Sym) else s
    if isinstance(s, AbsSym):
        s = s.resolve()
    if s.special:
        return s
    s = apply_relations(s)
    if s.is_const():
        r, i = s.const_value()
        if i == 0 and r >= 0:
            n, d = r.numerator, r.denominator
            rn, rd = math.isqrt(n), math.isqrt(d)
            if rn * rn == n and rd * rd == d:
                return Sym.const(Fraction(rn, rd))
        if i == 0 and r < 0 and complex_ok:
            return sym_sqrt(Sym.const(-r)) * Sym(R.I, R.one)
    key = ("sqrt", s.n, s.d)
    if key in R.memo:
        return R.memo[key]
    if R.mode == "real" and not _has_i(s.n) and complex_ok and not s.is_const():
        # principal complex square root of a real quantity: sign fork  (sqrt(x) = i*sqrt(-x) for x < 0)
        if bool(mk_cmp("lt", s)):
            out = sym_sqrt(-s) * Sym(R.I, R.one)
            R.memo[key] = out
            return out
    t = _perfect_square(s)
    if t is not None:
        if R.mode == "real":
            out = sym_abs(t)
        else:
            # principal root of t**2 is +-t: explicit generator e with e**2 == 1
            out = _new_sqrt_gen(s)
        R.memo[key] = out
        return out
    out = _new_sqrt_gen(s)
    R.memo[key] = out
    return out


def _new_sqrt_gen(s):
    R = cur()
    g = R.fresh("sqrt", arg=s)
    R.log.append(("sqrt", repr(g), repr(s)))
    return g


def sym_cbrt(s):
    """real cube root (np.cbrt): generator k with k**3 == s"""
    R = cur()
    s = Sym.const(s) if not isinstance(s, Sym) else s
    if isinstance(s, AbsSym):
        s = s.resolve()
    if s.special:
        return s
    if s.is_const():
        r, i = s.const_value()
        if i == 0:
            sign = -1 if r < 0 else 1
            r = abs(r)
            n, d = r.numerator, r.denominator
            rn, rd = round(n ** (1 / 3)), round(d ** (1 / 3))
            if rn ** 3 == n and rd ** 3 == d:
                return Sym.const(Fraction(sign * rn, rd))
    if R.mode != "real" or _has_i(s.n):
        raise EngineGap("cbrt of a complex value")
    key = ("cbrt", s.n, s.d)
    if key in R.memo:
        return R.memo[key]
    g = R.fresh("cbrt", arg=s)
    R.memo[key] = g
    return g


def root_pow(s, k):
    """s ** (p/q) for positive real s (used for normalisation constants only): opaque positive generator"""
    R = cur()
    if s.is_const():
        r, i = s.const_value()
        if i == 0 and r > 0:
            # exact if perfect power, else opaque
            val = float(r) ** float(k)
            fr = Fraction(val).limit_denominator(10**6)
            if fr ** k.denominator == r ** k.numerator:
                return Sym.const(fr)
    key = ("pow", s.n, s.d, k)
    if key in R.memo:
        return R.memo[key]
    g = R.fresh("pos", why="(%r)**%s" % (s, k))
    R.facts.append(mk_cmp("lt", -g) if R.mode == "real" else bnot(mk_eq0(g)))
    R.memo[key] = g
    return g


def trig(s):
    """(cos s, sin s).  s must be an integer linear combination of plain angle symbols (user generators): every angle
    symbol t gets a generator pair (c_t, s_t) with c_t**2 + s_t**2 == 1, sums are expanded by the addition formulas."""
    R = cur()
    s = Sym.const(s) if not isinstance(s, Sym) else s
    if s.is_const():
        r, i = s.const_value()
        if i == 0 and r == 0:
            return Sym.const(1), Sym.const(0)
        if i == 0:
            return Sym.const(math.cos(float(r))), Sym.const(math.sin(float(r)))
    if not (s.d.is_ground and s.d.LC == 1):
        raise EngineGap("trigonometric function of a non-linear angle expression")
    nuser = 1 + len(R.user_names)
    terms = []
    for m, c in s.n.items():
        if sum(m) != 1 or m[0]:
            raise EngineGap("trigonometric function of a non-linear angle expression")
        k = m.index(1)
        if k >= nuser:
            raise EngineGap("trigonometric function of a derived quantity")
        terms.append((k, int(c)))
    terms.sort()

    def atom(k):
        key = ("trig", k)
        if key not in R.memo:
            c = R.fresh("cos", arg=R.names[k])
            kc = max(R.meta)
            sn = R.fresh("sin", arg=R.names[k], cos=kc)
            R.memo[key] = (c, sn)
        return R.memo[key]

    def mult(k, n):
        c, sn = atom(k)
        if n < 0:
            cc, ss = mult(k, -n)
            return cc, -ss
        cc, ss = Sym.const(1), Sym.const(0)
        for _ in range(n):
            cc, ss = cc * c - ss * sn, ss * c + cc * sn
        return cc, ss

    cc, ss = Sym.const(1), Sym.const(0)
    for k, n in terms:
        c2, s2 = mult(k, n)
        cc, ss = cc * c2 - ss * s2, ss * c2 + cc * s2
    return cc, ss

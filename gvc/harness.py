"""Cases, contexts and the per-case runner.

A *case* is a harness function ``fn(ctx)`` that builds (symbolic or concrete) inputs, calls the real
geometer function(s) under contract and states the contract clauses through ``ctx.assume`` /
``ctx.ensure``.  The same function is executed
  * symbolically, once per path, by ``run_case`` (VC generation + discharge), and
  * natively with real numpy on a concrete model by ``replay_case`` (counterexample replay).
"""
from __future__ import annotations

import hashlib
import math
import os
import time
import traceback
from fractions import Fraction

import numpy as _np

from gvc import sym as S
from gvc.sym import Sym, SymBool, SymRing, band, bnot, bor, mk_eq0, TRUE, FALSE, EngineGap

CASES = {}  # prop -> list[Case]
BY_ID = {}


class Case:
    def __init__(self, prop, name, fn, symbols, mode="real", tier="quick", spare=24, max_paths=300, timeout=60.0,
                 functions=(), kind="proof", explore_time=300.0, expect=None, assumptions=(), oracle=True, also=(), bound="", share=False, xcheck=True):
        self.prop = prop
        self.props = (prop,) + tuple(also)
        self.name = name
        self.fn = fn
        self.symbols = list(symbols)
        self.mode = mode
        self.tier = tier
        self.spare = spare
        self.max_paths = max_paths
        self.timeout = timeout
        self.functions = list(functions)
        self.kind = kind  # 'proof' | 'canary'
        self.explore_time = explore_time
        self.expect = expect
        self.assumptions = list(assumptions)
        self.oracle = oracle
        self.bound = bound
        self.xcheck = xcheck  # engine cross-check applicable (not for transcendental leaves evaluated at concrete angles)
        self.share = share  # obligations without an explicit prop count for every property in `also`
        self.id = "%s/%s" % (prop, name)


def case(prop, name, symbols, **kw):
    def deco(fn):
        c = Case(prop, name, fn, symbols, **kw)
        for pr in c.props:
            CASES.setdefault(pr, []).append(c)
        if c.id in BY_ID:
            raise ValueError("duplicate case id " + c.id)
        BY_ID[c.id] = c
        return fn

    return deco


def names(prefix, *shape):
    if not shape:
        return [prefix]
    out = []
    for idx in _np.ndindex(*shape):
        out.append(prefix + "".join(str(i) for i in idx))
    return out


class ReplayNotApplicable(Exception):
    pass


class _CtxBase:
    def vec(self, prefix, n):
        return self.arr(prefix, n)

    def arr(self, prefix, *shape):
        from gvc.snp import SymArray

        out = _np.empty(shape, dtype=object)
        for idx in _np.ndindex(*shape):
            out[idx] = self.sym(prefix + "".join(str(i) for i in idx))
        if not self.symbolic:
            vals = list(out.reshape(-1))
            if any(isinstance(v, complex) for v in vals):
                return _np.array(vals, dtype=complex).reshape(shape)
            return _np.array(vals, dtype=float).reshape(shape)
        return out.view(SymArray)

    # -- predicate helpers usable in both modes ------------------------------------------------
    def all_zero(self, a):
        a = _np.asarray(a, dtype=object) if self.symbolic else _np.asarray(a)
        scale = None
        if not self.symbolic:
            scale = float(_np.max(_np.abs(a))) if a.size else 0.0
            return bool(_np.all(_np.abs(a) <= 1e-9 * max(1.0, scale)))
        return band(*[self.zero(x) for x in a.reshape(-1)])

    def minors_zero(self, a, b):
        """all 2x2 minors of the pair of flattened arrays vanish (a and b proportional)"""
        a = _flat(a)
        b = _flat(b)
        assert len(a) == len(b), (len(a), len(b))
        out = []
        for i in range(len(a)):
            for j in range(i + 1, len(a)):
                t1, t2 = a[i] * b[j], a[j] * b[i]
                out.append(self.zero(t1 - t2, scale=(abs(t1) + abs(t2)) if not self.symbolic else None))
        return self.conj(out)

    def proj_eq(self, a, b):
        """same projective object: proportional and both non-zero"""
        return self.conj([self.minors_zero(a, b), self.neg(self.all_zero(_flat(a))), self.neg(self.all_zero(_flat(b)))])

    def conj(self, xs):
        if self.symbolic:
            return band(*xs)
        return all(bool(x) for x in xs)

    def disj(self, xs):
        if self.symbolic:
            return bor(*xs)
        return any(bool(x) for x in xs)

    def neg(self, x):
        if self.symbolic:
            return bnot(x)
        return not x

    def implies(self, a, b):
        return self.disj([self.neg(a), b])

    def iff(self, a, b):
        return self.conj([self.implies(a, b), self.implies(b, a)])


def _flat(a):
    from gvc.snp import SymArray

    if hasattr(a, "array"):
        a = a.array
    a = _np.asarray(a)
    if isinstance(a, SymArray):
        a = a.view(_np.ndarray)
    return list(a.reshape(-1))


class SymCtx(_CtxBase):
    symbolic = True

    def __init__(self, ex, ring, case):
        self.ex = ex
        self.ring = ring
        self.case = case
        self.mode = ring.mode

    def sym(self, name):
        return self.ring.sym(name)

    def assume(self, b):
        self.ex.assume(b)

    def ensure(self, name, b, excuse=None, **info):
        """excuse = (finding id, region formula or None): while the finding is listed as open in
        known_findings.json (and its stored witness still reproduces) the clause is checked outside
        the region only; a different violation of the same clause is still refuted."""
        if excuse is not None:
            fid, region = excuse
            if fid in os.environ.get("GVC_OPEN_FINDINGS", "").split(","):
                b = bor(region, b) if region is not None else TRUE
                info["excuse"] = fid
        self.ex.oblige(name, b, info)

    def stubs(self, **kw):
        from contracts.stubs import standard_stubs

        return standard_stubs(**kw)

    def zero(self, x, scale=None):
        if isinstance(x, SymBool):
            x = Sym.const(int(bool(x)))  # a boolean used as a number (numpy: True == 1)
        return mk_eq0(Sym.const(x))

    def is_true(self, b):
        """decide a formula on the current path (forks)"""
        return bool(b)

    def factor_hint(self, product, factors):
        """ghost lemma: product == prod(factors) (checked here by exact normal form); the factorisation is
        then available to the algebraic back end (zero-product rule) for polynomials too large to factor"""
        from gvc import alg

        product = Sym.const(product)
        tot = Sym.const(1)
        for f in factors:
            tot = tot * Sym.const(f)
        diff = product - tot
        if not diff.is_zero_nf():
            raise AssertionError("factor_hint: the claimed factorisation is not an identity")
        alg.add_factor_hint(product.n, [Sym.const(f).n for f in factors])

    def note(self, what):
        self.ex.note(what)

    def const(self, v):
        return Sym.const(v)


class NumCtx(_CtxBase):
    symbolic = False

    def __init__(self, model, case):
        self.model = model
        self.case = case
        self.mode = case.mode
        self.results = []  # (name, bool)
        self.notes = []

    def sym(self, name):
        v = self.model.get(name, 0)
        if isinstance(v, (tuple, list)):
            return complex(float(Fraction(v[0])), float(Fraction(v[1])))
        if isinstance(v, str):
            return float(Fraction(v))
        return float(v)

    def assume(self, b):
        if not bool(b):
            raise ReplayNotApplicable("assumption false for the model")

    def ensure(self, name, b, excuse=None, **info):
        try:
            ok = bool(_np.all(b))
        except Exception:
            ok = False
        self.results.append((name, ok))

    def zero(self, x, scale=None):
        x = complex(x) if isinstance(x, (complex, _np.complexfloating)) else float(x)
        if math.isnan(abs(x)):
            return False
        tol = 1e-7 * (scale if scale is not None and scale > 0 else 1.0)
        return abs(x) <= max(tol, 1e-12)

    def is_true(self, b):
        return bool(b)

    def factor_hint(self, product, factors):
        pass

    def stubs(self, **kw):
        import contextlib

        return contextlib.nullcontext()

    def note(self, what):
        self.notes.append(what)

    def const(self, v):
        return v


# ---------------------------------------------------------------------------------------------


def _model_jsonable(model):
    if model is None:
        return None
    out = {}
    for k, v in model.items():
        if isinstance(v, tuple):
            out[k] = [str(v[0]), str(v[1])]
        elif isinstance(v, Fraction):
            out[k] = str(v)
        elif v is None:
            out[k] = "0"
        else:
            out[k] = repr(float(v))
    return out


def run_case(case_id, tier="quick", seed=0, timeout_scale=1.0):
    """symbolic exploration + discharge of one case.  Returns a picklable summary dict."""
    from gvc import patch, prove
    from gvc.explore import Explorer, PathLimit

    t0 = time.time()
    case = BY_ID[case_id]
    if case.kind == "bounded":
        return run_bounded(case_id, tier, seed)
    patch.activate()
    ring = SymRing(case.symbols, mode=case.mode, spare=case.spare)
    oracle = None
    if case.oracle:
        oracle = prove.oracle_real() if case.mode == "real" else prove.oracle_field()
    ex = Explorer(ring, oracle=oracle, max_paths=case.max_paths, time_limit=case.explore_time * timeout_scale)
    summary = dict(case=case.id, prop=case.prop, kind=case.kind, mode=case.mode, functions=case.functions,
                   obligations=[], paths=0, gaps=[], error=None, assumptions=list(case.assumptions))
    try:
        paths = ex.run(lambda e: case.fn(SymCtx(e, ring, case)))
    except PathLimit as e:
        summary["error"] = "path limit: %s" % e
        summary["wall_s"] = time.time() - t0
        return summary
    except Exception:
        summary["error"] = "engine crash: " + traceback.format_exc()
        summary["wall_s"] = time.time() - t0
        return summary
    summary["paths"] = len(paths)
    summary["stats"] = dict(ex.stats)
    nfail = 0
    S.set_ring(ring)
    for p in paths:
        if p.outcome[0] == "infeasible":
            continue
        obs = list(p.obligations)
        if p.outcome[0] == "raise":
            from gvc.explore import Obligation

            e = p.outcome[1]
            ob = Obligation("no-unexpected-exception", list(p.pc), FALSE,
                            {"exception": "%s: %s" % (type(e).__name__, e), "trace": p.outcome[2][-1500:], "meta": p.meta})
            ob.path_id = p.id
            ob.facts = list(p.facts)
            obs.append(ob)
        if p.outcome[0] == "gap":
            summary["gaps"].append(dict(path=p.id, what=p.outcome[1], pc=[repr(x)[:200] for x in p.pc[-6:]]))
        for ob in obs:
            ring.meta = ob.info.get("meta") or {}
            if nfail >= 8:
                v = prove.Verdict("unknown", "skipped", 0.0, detail="not attempted: 8 obligations of this case already failed")
                summary["obligations"].append(dict(name=ob.name, prop=ob.info.get("prop") or case.prop,
                                                   props=[ob.info["prop"]] if ob.info.get("prop") else (list(case.props) if case.share else [case.prop]),
                                                   path=p.id, status="unknown", backend="skipped", seconds=0.0, detail=v.detail, model=None, goal=repr(ob.goal)[:200],
                                                   npc=len(ob.hyps), pc=[], exception=ob.info.get("exception"), excuse=ob.info.get("excuse"), structure=None, notes=[]))
                continue
            try:
                v = prove.prove(ring, ob, timeout_s=case.timeout * timeout_scale, seed=seed)
            except Exception:
                v = prove.Verdict("unknown", "crash", 0.0, detail=traceback.format_exc()[-800:])
            if v.status != "proved":
                nfail += 1
            rec = dict(
                name=ob.name,
                prop=ob.info.get("prop") or case.prop,
                props=[ob.info["prop"]] if ob.info.get("prop") else (list(case.props) if case.share else [case.prop]),
                path=p.id,
                status=v.status,
                backend=v.backend,
                seconds=round(v.seconds, 4),
                detail=v.detail,
                model=_model_jsonable(v.model),
                goal=repr(ob.goal)[:400],
                npc=len(ob.hyps),
                pc=[repr(x)[:160] for x in ob.hyps[-8:]],
                exception=ob.info.get("exception"),
                excuse=ob.info.get("excuse"),
                structure=ob.info.get("structure"),
                notes=[repr(n)[:80] for n in p.notes[:6]],
            )
            summary["obligations"].append(rec)
    summary["wall_s"] = round(time.time() - t0, 3)
    return summary


class BoundedCtx(NumCtx):
    """native enumeration context for bounded stand-ins: ensure(name, ok, witness=...) is called once per enumerated input"""

    def __init__(self, case, seed=0):
        NumCtx.__init__(self, {}, case)
        self.counts = {}
        self.fail = {}
        self.seed = seed
        self.only = None  # replay: evaluate only this witness key

    def ensure(self, name, b, excuse=None, witness=None, prop=None, **info):
        try:
            ok = bool(_np.all(b))
        except Exception:
            ok = False
        if prop is not None:
            self.clause_prop = getattr(self, "clause_prop", {})
            self.clause_prop[name] = prop
        c = self.counts.setdefault(name, [0, 0])
        c[0] += 1
        if excuse is not None and excuse[0] in os.environ.get("GVC_OPEN_FINDINGS", "").split(","):
            self.excused = getattr(self, "excused", {})
            self.excused[name] = excuse[0]
            ok = True
        if ok:
            c[1] += 1
        elif name not in self.fail:
            self.fail[name] = witness


def run_bounded(case_id, tier="quick", seed=0):
    """bounded stand-in: the harness enumerates a finite input set natively (real numpy, unpatched geometer)"""
    t0 = time.time()
    case = BY_ID[case_id]
    ctx = BoundedCtx(case, seed)
    ctx.tier = tier
    summary = dict(case=case.id, prop=case.prop, kind="bounded", mode="native", functions=case.functions, obligations=[], paths=0, gaps=[],
                   error=None, assumptions=list(case.assumptions), bound=getattr(case, "bound", ""))
    try:
        with _np.errstate(all="ignore"):
            case.fn(ctx)
    except Exception as e:
        frames = traceback.extract_tb(e.__traceback__)
        if any(os.sep + "geometer" + os.sep in f.filename for f in frames):
            # an exception raised inside the library on an enumerated input is a failing clause, not a defect of the harness
            lib = [f for f in frames if os.sep + "geometer" + os.sep in f.filename][-1]
            ctx.counts["no-unexpected-exception"] = [1, 0]
            ctx.fail["no-unexpected-exception"] = "%s: %s @ %s:%s (%s)" % (type(e).__name__, str(e)[:200], os.path.basename(lib.filename), lib.lineno, lib.name)
        else:
            summary["error"] = "bounded harness crashed: " + traceback.format_exc()[-1500:]
    else:
        ctx.counts.setdefault("no-unexpected-exception", [1, 1])
    for name, (n, ok) in ctx.counts.items():
        w = ctx.fail.get(name)
        cp = getattr(ctx, "clause_prop", {}).get(name)
        summary["obligations"].append(dict(name=name, prop=(cp[0] if isinstance(cp, (list, tuple)) else cp) or case.prop, props=(list(cp) if isinstance(cp, (list, tuple)) else [cp]) if cp else (list(case.props) if case.share else [case.prop]), path=0, status="proved" if n == ok else "refuted", backend="bounded-enumeration",
                                           seconds=0.0, detail="%d/%d inputs" % (ok, n), model=None, witness=repr(w)[:600] if w is not None else None,
                                           goal="holds on every enumerated input", npc=0, pc=[], exception=None, excuse=getattr(ctx, "excused", {}).get(name), evaluations=n))
    summary["wall_s"] = round(time.time() - t0, 3)
    return summary


def replay_case(case_id, model):
    """native replay (real numpy, unpatched geometer) of a model.  Returns list of (clause, ok) and notes."""
    case = BY_ID[case_id]
    if case.kind == "bounded":
        r = run_bounded(case_id)
        return dict(case=case_id, results=[(o["name"], o["status"] == "proved") for o in r["obligations"]], exception=r["error"], applicable=True,
                    witnesses={o["name"]: o.get("witness") for o in r["obligations"] if o["status"] != "proved"})
    ctx = NumCtx(model, case)
    out = dict(case=case_id, results=[], exception=None, applicable=True)
    try:
        with _np.errstate(all="ignore"):
            case.fn(ctx)
    except ReplayNotApplicable as e:
        out["applicable"] = False
        out["exception"] = str(e)
    except Exception as e:
        out["exception"] = "%s: %s" % (type(e).__name__, e)
        out["trace"] = traceback.format_exc()[-1500:]
    out["results"] = ctx.results
    out["notes"] = [str(n) for n in ctx.notes]
    return out


def concrete_proxy_run(case_id, model):
    """engine cross-check, proxy side: run the harness under the symbolic numpy proxy with CONSTANT symbols (values of
    `model`), so every decision is concrete up to leaf generators.  Returns {clause: True/False/None}"""
    from gvc import patch, prove
    from gvc.explore import Explorer

    case = BY_ID[case_id]
    patch.activate()
    ring = SymRing(case.symbols, mode=case.mode, spare=max(case.spare, 60))

    class CC(SymCtx):
        def sym(self, name):
            v = model.get(name, 0)
            if isinstance(v, (list, tuple)):
                return Sym.const(Fraction(v[0])) + Sym.const(Fraction(v[1])) * Sym(self.ring.I, self.ring.one)
            return Sym.const(Fraction(str(v)))

    ex = Explorer(ring, oracle=prove.oracle_real(800) if case.mode == "real" else prove.oracle_field(1.0), max_paths=40, time_limit=120)
    out = {}
    status = "ok"
    try:
        paths = ex.run(lambda e: case.fn(CC(e, ring, case)))
    except Exception as e:
        return dict(status="explore-error: %s" % e, clauses={})
    live = [p for p in paths if p.outcome[0] != "infeasible"]
    if any(p.outcome[0] == "gap" for p in live):
        return dict(status="gap", clauses={})
    raised = [p for p in live if p.outcome[0] == "raise"]
    for p in live:
        for ob in p.obligations:
            v = ob.goal.args[0] if ob.goal.op == "const" else None
            key = ob.name
            if key in out and out[key] != v:
                out[key] = None
            else:
                out.setdefault(key, v)
    return dict(status="ok", clauses=out, npaths=len(live), raised=[type(p.outcome[1]).__name__ for p in raised])

"""C12 check: frame obligations (static, per function, all call histories) + native purity monitor (replay)."""
from __future__ import annotations

import ast
import json
import os
import re
import subprocess
import time

from gvc import frame

CANARIES = {
    "write-into-argument-array": "class K:\n    def f(self, other):\n        other.array[0] = 1\n",
    "write-through-cached-attribute": "class K:\n    def f(self):\n        e = self._plane\n        e[0] = e[0].parallel(1)\n",
    "inplace-on-shallow-copy": "class K:\n    def f(self):\n        r = self.copy()\n        r.array *= 2\n        return r\n",
    "augassign-on-module-constant": "def f(x):\n    infty.array += x\n",
    "out-into-borrowed": "def f(a, b):\n    np.multiply(a, b, out=a)\n",
}


def run_canaries():
    bad = []
    for name, src in CANARIES.items():
        tree = ast.parse(src)
        sites = []
        for n in ast.walk(tree):
            if isinstance(n, ast.FunctionDef):
                sites += frame.FuncAnalysis("canary", "K", n).run()
        if not any(s.status == frame.B for s in sites):
            bad.append(name)
    return bad


def main(here, repo, tier, seed, py, env):
    t0 = time.time()
    scratch = os.path.realpath(repo) != "/repo"
    evdir = os.path.join(here, "evidence") if not scratch else os.path.join(here, "replays", "_scratch_evidence")
    rdir = os.path.join(here, "replays", "C12")
    os.makedirs(evdir, exist_ok=True)
    os.makedirs(rdir, exist_ok=True)
    for f in os.listdir(rdir):
        os.unlink(os.path.join(rdir, f))
    sites, nfun, files = frame.analyse_repo(repo)
    table_bad, table_n = frame.check_numpy_table()
    canary_bad = run_canaries()
    # native purity monitor (bounded supplement and replay harness)
    p = subprocess.run([py, "-m", "gvc.purity"], cwd=here, env=env, capture_output=True, text=True, timeout=900)
    m = re.search(r"@@RESULT@@(.*)$", p.stdout, re.M)
    mon = json.loads(m.group(1)) if m else dict(error=(p.stderr or p.stdout)[-800:], mutations=[], operations=0)

    refuted = [s for s in sites if s.status == frame.B]
    unknown = [s for s in sites if s.status == frame.U]
    lines = []
    rc = 0
    known = json.load(open(os.path.join(here, "known_findings.json")))
    open_k = {k["clause"]: k for k in known.get("findings", []) if k.get("property") == "C12" and k.get("status") == "open"}
    nviol = 0
    for s in refuted:
        key = "%s:%s:%s" % (s.file, s.func, s.kind + " " + s.target)
        fname = os.path.join(rdir, re.sub(r"[^A-Za-z0-9_.-]+", "_", s.name())[:100] + ".json")
        # does the native monitor show a mutation (any)?  the replay names the static obligation and carries the monitor output
        reproduced = bool(mon.get("mutations"))
        with open(fname, "w") as f:
            json.dump(dict(property="C12", obligation="frame/%s" % s.name(), clause="assigns-nothing: written object must be FRESH",
                           target=s.target, status=frame.NAMES[s.status], why=s.why, native_monitor=mon, reproduced=reproduced), f, indent=1)
        if key in open_k:
            lines.append("KNOWN-FINDING: property=C12 %s %s" % (open_k[key]["id"], open_k[key]["what"]))
            continue
        nviol += 1
        lines.append("VIOLATION property=C12 replay=%s%s" % (fname, "" if reproduced else " no-failing-input-found"))
        lines.append("  frame obligation %s: `%s` is written in place but is %s (%s)" % (s.name(), s.target, frame.NAMES[s.status], s.why))
    if mon.get("mutations") and not refuted:
        fname = os.path.join(rdir, "native_monitor.json")
        with open(fname, "w") as f:
            json.dump(dict(property="C12", obligation="native purity monitor", native_monitor=mon, reproduced=True), f, indent=1)
        nviol += 1
        lines.append("VIOLATION property=C12 replay=%s" % fname)
        lines.append("  native purity monitor: %s" % json.dumps(mon["mutations"][:2])[:300])
    if nviol:
        rc = 1
    for s in unknown[:10]:
        lines.append("UNDECIDED frame obligation %s: `%s` could not be classified (%s)" % (s.name(), s.target, s.why))
    if unknown and rc == 0:
        rc = 2
    if table_bad or canary_bad or not sites or "error" in mon:
        lines.append("CHECKER-ERROR: numpy table %s, canaries not flagged %s, sites %d, monitor %s" % (table_bad, canary_bad, len(sites), mon.get("error", "ok")))
        rc = 3
    ev = dict(
        property_id="C12", tier=tier, seed=seed, level="proof", wall_s=round(time.time() - t0, 2), violations=nviol,
        coverage=dict(
            obligations=len(sites), discharged=sum(1 for s in sites if s.status == frame.F),
            checker_cmd="./check C12 --tier %s" % tier,
            trusted_base=["numpy view/copy table of gvc/frame.py (differential-tested with np.shares_memory: %d entries, %d mismatches)" % (table_n, len(table_bad)),
                          "function summaries G_FRESH / M_FRESH (results of geometer functions and methods are freshly allocated)",
                          "documented mutators excluded from the frame contract: %s; class caches may gain keys" % sorted(frame.MUTATORS),
                          "Python semantics: **kwargs is a new dict per call; augmented assignment on int/str rebinds"],
            functions_under_contract=["every function of " + f for f in files],
            functions=nfun,
            samples=[dict(obligation="frame/" + s.name(), target=s.target, verdict=frame.NAMES[s.status], why=s.why) for s in sites[:: max(1, len(sites) // 12)][:12]],
            canaries=dict(cases=len(CANARIES), flagged=len(CANARIES) - len(canary_bad)),
            bounded=[dict(what="native purity monitor: pool of 2D/3D objects x public operations, byte-exact snapshots of all reachable arrays, module constants and caches",
                          bound="%d operations on %d watched arrays" % (mon.get("operations", 0), mon.get("arrays_watched", 0)), evaluations=mon.get("operations", 0),
                          mutations=len(mon.get("mutations", [])))],
            undecided=[s.name() for s in unknown],
        ),
        assumptions=["the frame contract is per function: sound for every sequence of calls provided the view/copy table and the summaries hold",
                     "'same answer whether asked first or later' follows from the frame contract plus determinism of the (pure) functions"],
    )
    with open(os.path.join(evdir, "C12.json"), "w") as f:
        json.dump(ev, f, indent=1)
    for l in lines:
        print(l)
    print("C12 tier=%s functions=%d write-sites=%d fresh=%d borrowed=%d unknown=%d monitor-ops=%d monitor-mutations=%d wall=%.1fs" % (
        tier, nfun, len(sites), ev["coverage"]["discharged"], len(refuted), len(unknown), mon.get("operations", 0), len(mon.get("mutations", [])), time.time() - t0))
    return rc

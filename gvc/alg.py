"""Field-mode decision back end: satisfiability of a quantifier free formula over polynomial
equalities / disequalities in an algebraically closed field (all symbols complex).

unsat(F) is established by a small DPLL-style search with algebraic propagation:
  * equalities that are linear in a variable with unit coefficient are eliminated by substitution,
  * equalities are factored (zero-product rule) and factors known to be non-zero are removed,
  * a disequality whose polynomial vanishes, lies in the Q(i)-span of the equalities, or (last resort)
    in their ideal (Groebner basis, Rabinowitsch) closes a branch.
Open leaves are handed to an exact point search (integers / Gaussian integers) that produces
counter-models.  Everything is exact; "unknown" is returned when neither side succeeds.
"""
from __future__ import annotations

import random
import time
from fractions import Fraction

from gvc import sym as S
from gvc.sym import _red, _prim


class Budget(Exception):
    pass


def _is_const(p):
    return p.is_ground


def _norm(p):
    """primitive, sign normalised"""
    if not p:
        return p
    if S._has_i(p):
        c = p.content()
        if c not in (0, 1):
            p = p.quo_ground(c)
        return p
    return _prim(p)


_factor_cache = {}


class _Alarm(BaseException):
    pass


def _with_alarm(seconds, fn, *a):
    import signal

    def handler(signum, frame):
        raise _Alarm()

    try:
        old = signal.signal(signal.SIGALRM, handler)
    except ValueError:  # not in the main thread
        return fn(*a)
    prev = signal.setitimer(signal.ITIMER_REAL, seconds)
    try:
        return fn(*a)
    finally:
        signal.setitimer(signal.ITIMER_REAL, 0)
        signal.signal(signal.SIGALRM, old)


def _factors(p, limit=80):
    """list of non-constant irreducible factors (over Z[I_, x]); [p] if too large to factor"""
    if p.is_ground:
        return [p]
    key = p
    r = _factor_cache.get(key)
    if r is None and len(p) > limit:
        return [p]
    if r is None:
        try:
            _, fl = _with_alarm(1.5, p.factor_list)
            r = [f for f, _ in fl]
        except _Alarm:
            r = [p]
        except Exception:
            r = [p]
        if len(_factor_cache) > 20000:
            _factor_cache.clear()
        _factor_cache[key] = r
    return r


def add_factor_hint(p, factors):
    """certified factorisation supplied by a contract (the caller has checked p == c * prod(factors) by normal form)"""
    out = []
    for f in factors:
        if f.is_ground:
            continue
        out.extend(_factors(_norm(f)))
    _factor_cache[_norm(p)] = out


class State:
    __slots__ = ("ring", "sigma", "eqs", "neqs", "ors")

    def __init__(self, ring):
        self.ring = ring
        self.sigma = {}  # generator index -> polynomial (already fully substituted)
        self.eqs = []  # polynomials == 0 (substituted, normalised, non-linear leftovers)
        self.neqs = {}  # normalised polynomial -> True
        self.ors = []  # list of lists of literals (p, positive)

    def copy(self):
        s = State(self.ring)
        s.sigma = dict(self.sigma)
        s.eqs = list(self.eqs)
        s.neqs = dict(self.neqs)
        s.ors = [list(o) for o in self.ors]
        return s

    def apply(self, p):
        if not self.sigma or not p:
            return p
        gens = self.ring.gens
        for k, g in self.sigma.items():
            hit = False
            for m in p:
                if m[k]:
                    hit = True
                    break
            if hit:
                p = _red(p.compose(gens[k], g))
        return p


def _linear_var(p, ring, prefer_user=True):
    """find generator k and cofactor with p = c*x_k + rest, c = +-1 integer (or p = c*x_k), x_k not in rest"""
    best = None
    for m, c in p.items():
        if sum(m) == 1 and not m[0]:
            k = m.index(1)
            if k == 0:
                continue
            ok = True
            for mm in p:
                if mm[k] and mm != m:
                    ok = False
                    break
            if not ok:
                continue
            if c in (1, -1) or len(p) == 1:
                cand = (k, c)
                if best is None:
                    best = cand
    return best


class Solver:
    def __init__(self, ring, deadline, deep=True):
        self.ring = ring
        self.deadline = deadline
        self.deep = deep
        self.leaves = []
        self.nodes = 0

    def check_time(self):
        if time.time() > self.deadline:
            raise Budget()

    # ---- assertion of literals --------------------------------------------------------------------
    def assert_eq(self, st, p):
        """returns False if contradiction"""
        p = st.apply(p)
        if not p:
            return True
        if p.is_ground:
            return False
        p = _norm(p)
        # remove factors known non-zero
        fs = _factors(p)
        if len(fs) > 1 or (len(fs) == 1 and fs[0] is not p):
            live = [f for f in fs if not self.known_nonzero(st, f)]
            if not live:
                return False
            if len(live) > 1:
                st.ors.append([(f, True) for f in live])
                return True
            p = _norm(live[0])
        elif self.known_nonzero(st, p):
            return False
        lv = _linear_var(p, self.ring)
        if lv is not None:
            k, c = lv
            g = self.ring.gens[k]
            if len(p) == 1:
                rhs = self.ring.zero
            else:
                rest = p - g * c
                rhs = -rest if c == 1 else rest
            return self.substitute(st, k, rhs)
        st.eqs.append(p)
        return True

    def substitute(self, st, k, rhs):
        gens = self.ring.gens
        st.sigma = {kk: _red(v.compose(gens[k], rhs)) if any(m[k] for m in v) else v for kk, v in st.sigma.items()}
        st.sigma[k] = rhs
        old_eqs, st.eqs = st.eqs, []
        old_neqs, st.neqs = st.neqs, {}
        old_ors, st.ors = st.ors, []
        for e in old_eqs:
            if any(m[k] for m in e):
                if not self.assert_eq(st, e):
                    return False
            else:
                st.eqs.append(e)
        for n in old_neqs:
            if any(m[k] for m in n):
                if not self.assert_neq(st, n):
                    return False
            else:
                st.neqs[n] = True
        for o in old_ors:
            st.ors.append(o)
        return True

    def known_nonzero(self, st, p):
        if p.is_ground:
            return bool(p)
        q = _norm(p)
        if q in st.neqs:
            return True
        return False

    def assert_neq(self, st, p):
        p = st.apply(p)
        if not p:
            return False
        if p.is_ground:
            return True
        for f in _factors(_norm(p)):
            f = _norm(f)
            if not f.is_ground:
                st.neqs[f] = True
        return True

    def lit_value(self, st, p, positive):
        """three-valued value of literal (p == 0) / (p != 0) under the state"""
        q = st.apply(p)
        if not q:
            v = True
        elif q.is_ground:
            v = False
        elif all(self.known_nonzero(st, f) for f in _factors(_norm(q))):
            v = False
        else:
            # canonical core: product of the factors not known to be non-zero
            fs = _factors(_norm(q))
            if len(fs) > 1:
                core = None
                for f in fs:
                    if not self.known_nonzero(st, f):
                        core = f if core is None else core * f
                q = _norm(core)
            else:
                q = _norm(q)
            return None, q
        return (v if positive else (not v)), q

    # ---- search -----------------------------------------------------------------------------------
    def propagate(self, st):
        """simplify disjunctions; returns False on contradiction"""
        changed = True
        while changed:
            self.check_time()
            changed = False
            ors, st.ors = st.ors, []
            for idx, o in enumerate(ors):
                live = []
                seen = set()
                sat = False
                for (p, pos) in o:
                    v, q = self.lit_value(st, p, pos)
                    if v is True:
                        sat = True
                        break
                    if v is None:
                        key = (q, pos)
                        if key in seen:
                            continue
                        if (q, not pos) in seen:
                            sat = True
                            break
                        seen.add(key)
                        live.append((q, pos))
                if sat:
                    continue
                if not live:
                    return False
                if len(live) == 1:
                    p, pos = live[0]
                    ok = self.assert_eq(st, p) if pos else self.assert_neq(st, p)
                    if not ok:
                        return False
                    changed = True
                    # remaining disjunctions are re-examined in the next round
                    st.ors.extend(ors[idx + 1 :])
                    break
                st.ors.append(live)
            # equalities may have become decidable
            eqs, st.eqs = st.eqs, []
            for e in eqs:
                q = st.apply(e)
                if q is not e or any(self.known_nonzero(st, f) for f in _factors(_norm(q))):
                    if not self.assert_eq(st, q):
                        return False
                    if st.eqs and st.eqs[-1] is not q:
                        changed = changed or True
                else:
                    st.eqs.append(e)
            for n in list(st.neqs):
                q = st.apply(n)
                if not q:
                    return False
        return True

    def leaf_unsat(self, st):
        from gvc.prove import _in_span, _groebner_member

        eqs = [e for e in st.eqs if e]
        neqs = list(st.neqs)
        for n in neqs:
            if _in_span(n, eqs):
                return True
        if self.deep and eqs:
            left = self.deadline - time.time()
            if left <= 0.5:
                raise Budget()
            # Rabinowitsch: 1 in <eqs, t*prod(neqs) - 1>
            R = self.ring
            t = R.gens[-1]  # last spare generator is reserved for this
            prod = R.one
            for n in neqs:
                prod = _red(prod * n)
                if len(prod) > 400:
                    prod = None
                    break
            if prod is not None:
                r = _groebner_member(R.one, eqs + [t * prod - 1], R, min(left, 30.0))
                if r:
                    return True
            else:
                for n in neqs:
                    r = _groebner_member(n, eqs, R, min(left, 10.0))
                    if r:
                        return True
        return False

    def solve(self, st, depth=0):
        """True if unsat"""
        self.nodes += 1
        self.check_time()
        if not self.propagate(st):
            return True
        if not st.ors:
            if self.leaf_unsat(st):
                return True
            self.leaves.append(st)
            return False
        # split on the first literal of the smallest disjunction: L  |  ~L & rest
        st.ors.sort(key=len)
        o = st.ors.pop(0)
        (p, pos) = o[0]
        rest = o[1:]
        s2 = st.copy()
        ok = self.assert_eq(s2, p) if pos else self.assert_neq(s2, p)
        if ok and not self.solve(s2, depth + 1):
            return False
        s3 = st
        ok = self.assert_neq(s3, p) if pos else self.assert_eq(s3, p)
        if not ok:
            return True
        if rest:
            s3.ors.append(rest)
        else:
            return True
        return self.solve(s3, depth + 1)


def _nnf(b, pos=True):
    op = b.op
    if op == "const":
        return ("const", b.args[0] if pos else not b.args[0])
    if op == "not":
        return _nnf(b.args[0], not pos)
    if op in ("and", "or"):
        kids = [_nnf(a, pos) for a in b.args]
        o = op if pos else ("or" if op == "and" else "and")
        return (o, kids)
    if op == "eq":
        return ("lit", b.args[0].n, pos)
    raise S.EngineGap("order atom in field mode")


def _to_clauses(t, out, budget=[0]):
    """convert NNF to CNF-ish: list of clauses (lists of literals) by distribution with size guard"""
    if t[0] == "const":
        if not t[1]:
            out.append([])
        return
    if t[0] == "lit":
        out.append([(t[1], t[2])])
        return
    if t[0] == "and":
        for k in t[1]:
            _to_clauses(k, out)
        return
    # or: distribute
    parts = []
    for k in t[1]:
        sub = []
        _to_clauses(k, sub)
        if not sub:  # true
            return
        parts.append(sub)
    acc = [[]]
    for sub in parts:
        acc = [a + c for a in acc for c in sub]
        if len(acc) > 4096:
            raise S.EngineGap("CNF too large")
    out.extend(acc)


def decide(ring, formulas, rel_eqs=(), rel_neqs=(), timeout_s=30.0, seed=0, deep=True, want_model=True):
    """satisfiability of AND(formulas).  returns ('unsat', None) | ('sat', model) | ('unknown', detail)"""
    from gvc.sym import band

    f = band(*formulas)
    if f.op == "const":
        return ("sat", {}) if f.args[0] else ("unsat", None)
    clauses = []
    _to_clauses(_nnf(f), clauses)
    st = State(ring)
    solver = Solver(ring, time.time() + timeout_s, deep=deep)
    try:
        for e in rel_eqs:
            if not solver.assert_eq(st, e):
                return ("unsat", None)
        for n in rel_neqs:
            if not solver.assert_neq(st, n):
                return ("unsat", None)
        for c in clauses:
            if not c:
                return ("unsat", None)
            if len(c) == 1:
                p, pos = c[0]
                ok = solver.assert_eq(st, p) if pos else solver.assert_neq(st, p)
                if not ok:
                    return ("unsat", None)
            else:
                st.ors.append(list(c))
        if solver.solve(st):
            return ("unsat", None)
    except Budget:
        return ("unknown", "time budget (%d nodes)" % solver.nodes)
    if not want_model:
        return ("unknown", "%d open leaves" % len(solver.leaves))
    for leaf in solver.leaves:
        m = find_point(ring, leaf, seed=seed)
        if m is not None:
            return ("sat", m)
    return ("unknown", "%d open leaves, no point found" % len(solver.leaves))


def _eval_int(p, vals):
    """exact evaluation with Gaussian-integer/rational values; vals[k] = (re, im)"""
    tr = 0
    ti = 0
    for m, c in p.items():
        vr, vi = int(c), 0
        for k, e in enumerate(m):
            if e:
                if k == 0:
                    br, bi = 0, 1
                else:
                    b = vals[k]
                    if b is None:
                        raise KeyError(k)
                    br, bi = b
                for _ in range(e):
                    vr, vi = vr * br - vi * bi, vr * bi + vi * br
        tr += vr
        ti += vi
    return tr, ti


def _partial(p, vals):
    """partial evaluation: {monomial over the unassigned generators: (re, im)} (generator 0 = I_ folded into the coefficient)"""
    out = {}
    for m, c in p.items():
        vr, vi = Fraction(int(c)), Fraction(0)
        rest = list(m)
        for k, e in enumerate(m):
            if not e:
                continue
            if k == 0:
                br, bi = Fraction(0), Fraction(1)
            elif vals[k] is not None:
                br, bi = vals[k]
            else:
                continue
            rest[k] = 0
            for _ in range(e):
                vr, vi = vr * br - vi * bi, vr * bi + vi * br
        key = tuple(rest)
        a = out.get(key, (Fraction(0), Fraction(0)))
        a = (a[0] + vr, a[1] + vi)
        if a == (0, 0):
            out.pop(key, None)
        else:
            out[key] = a
    return out


def _guided_values(leaf, ngens, nuser, rnd, span, cplx):
    vals = [None] * ngens
    eqs = list(leaf.eqs)
    for _ in range(4 * ngens + 8):
        pending = []
        progress = False
        for e in eqs:
            pe = _partial(e, vals)
            if not pe:
                continue
            gens = set()
            for m in pe:
                for k, x in enumerate(m):
                    if x:
                        gens.add(k)
            if not gens:
                return None  # non-zero constant
            if len(gens) == 1:
                (k,) = gens
                if k in leaf.sigma:
                    return None
                if all(sum(m) <= 1 for m in pe):
                    c1 = next(v for m, v in pe.items() if sum(m) == 1)
                    c0 = next((v for m, v in pe.items() if sum(m) == 0), (Fraction(0), Fraction(0)))
                    den = c1[0] * c1[0] + c1[1] * c1[1]
                    xr = -(c0[0] * c1[0] + c0[1] * c1[1]) / den
                    xi = -(c0[1] * c1[0] - c0[0] * c1[1]) / den
                    if (xi != 0 and not cplx) or (k >= nuser and (xi != 0 or xr <= 0)):
                        return None
                    vals[k] = (xr, xi)
                    progress = True
                    continue
            pending.append((len(gens), sorted(gens), e))
        if progress:
            eqs = [e for _, _, e in pending]
            continue
        if not pending:
            return vals
        pending.sort(key=lambda x: x[0])
        cands = [k for k in pending[0][1] if k not in leaf.sigma]
        if not cands:
            return None
        k = rnd.choice(cands)
        if k >= nuser:
            vals[k] = (Fraction(rnd.randint(1, span)), Fraction(0))
        else:
            vals[k] = (Fraction(rnd.randint(-span, span)), Fraction(rnd.randint(-span, span)) if cplx else Fraction(0))
        eqs = [e for _, _, e in pending]
    return None


def find_point(ring, leaf, seed=0, tries=80):
    """search a point of the leaf: free generators random small (Gaussian) integers, substituted
    generators by sigma; requires every remaining equality to vanish and every disequality not to."""
    rnd = random.Random(seed)
    ngens = ring.ngens
    nuser = 1 + len(ring.user_names)
    free_kinds = ("choice", "scale", "pos")
    used = set()
    for p in list(leaf.eqs) + list(leaf.neqs) + list(leaf.sigma.values()):
        for m in p:
            for k, e in enumerate(m):
                if e:
                    used.add(k)
    for k in used:
        if k >= nuser and (ring.meta.get(k, {}).get("kind") not in free_kinds):
            return None  # leaf generator with a defining relation: no free choice
    for t in range(tries):
        span = 2 + t // 10
        cplx = ring.mode == "field" and t % 4 == 3
        vals = [None] * ngens
        if t % 2 == 1 and leaf.eqs:
            # guided attempt: assign generators one at a time and solve the equalities that have become linear in a single generator
            vals = _guided_values(leaf, ngens, nuser, rnd, span, cplx)
            if vals is None:
                continue
        for k in range(1, ngens):
            if k in leaf.sigma or vals[k] is not None:
                continue
            if k >= nuser:
                vals[k] = (Fraction(rnd.randint(1, span)), Fraction(0))
            else:
                vals[k] = (Fraction(rnd.randint(-span, span)), Fraction(rnd.randint(-span, span)) if cplx else Fraction(0))
        try:
            for k, g in leaf.sigma.items():
                vals[k] = _eval_int(g, vals)
            if any(_eval_int(e, vals) != (0, 0) for e in leaf.eqs):
                continue
            if any(_eval_int(n, vals) == (0, 0) for n in leaf.neqs):
                continue
        except KeyError:
            continue
        out = {}
        for k in range(1, nuser):
            v = vals[k]
            out[ring.names[k]] = v if v[1] != 0 else v[0]
        return out
    return None

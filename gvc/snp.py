"""``snp``: the object that replaces the module global ``np`` inside the geometer modules while a
case is explored.  Structural numpy operations are executed by numpy itself on object arrays whose
elements are ``Sym``/``SymBool``; numeric leaf functions that have no meaning on symbols are replaced
by the leaf contracts listed in DESIGN.md section 3.5."""
from __future__ import annotations

import itertools
import math
from fractions import Fraction

import numpy as _np

from gvc import sym as S
from gvc.sym import AbsSym, EngineGap, Sym, SymBool, band, bnot, bor, mk_eq0, FALSE, TRUE

_CMP = {_np.equal, _np.not_equal, _np.less, _np.less_equal, _np.greater, _np.greater_equal}
_LOGICAL = {
    _np.logical_and: _np.bitwise_and,
    _np.logical_or: _np.bitwise_or,
    _np.logical_xor: _np.bitwise_xor,
    _np.logical_not: _np.invert,
}


def _is_symbolic_obj(x):
    return isinstance(x, (Sym, SymBool))


class SymArray(_np.ndarray):
    __array_priority__ = 500

    def __array_finalize__(self, obj):
        pass

    def __array_ufunc__(self, ufunc, method, *inputs, out=None, **kwargs):
        ins = [x.view(_np.ndarray) if isinstance(x, SymArray) else x for x in inputs]
        any_obj = any(isinstance(x, _np.ndarray) and x.dtype == object for x in ins) or any(
            _is_symbolic_obj(x) for x in ins
        )
        if out is not None:
            outs = tuple(o.view(_np.ndarray) if isinstance(o, SymArray) else o for o in out)
            if any_obj and any(isinstance(o, _np.ndarray) and o.dtype != object for o in outs):
                if method == "__call__" and all(o is i for o, i in zip(outs, ins[:1])):
                    raise EngineGap("in-place update of a concrete array with symbolic values (%s)" % ufunc.__name__)
            kwargs["out"] = outs
        if method == "__call__" and any_obj:
            if ufunc in _CMP:
                kwargs.setdefault("dtype", object)
            elif ufunc in _LOGICAL:
                ufunc = _LOGICAL[ufunc]
            elif ufunc is _np.isfinite:
                return _map(lambda v: not (isinstance(v, Sym) and v.special), ins[0])
            elif ufunc is _np.isinf:
                return _map(lambda v: isinstance(v, Sym) and v.special == "inf", ins[0])
            elif ufunc is _np.isnan:
                return _map(lambda v: isinstance(v, Sym) and v.special == "nan", ins[0])
            elif ufunc is _np.maximum or ufunc is _np.minimum:
                f = (lambda a, b: a if bool(a >= b) else b) if ufunc is _np.maximum else (lambda a, b: a if bool(a <= b) else b)
                return _map(f, ins[0], ins[1])
            elif ufunc is _np.sign:
                return _map(_sign, ins[0])
            elif ufunc is _np.power:
                return _map(lambda a, b: Sym.const(a) ** b, ins[0], ins[1])
            elif ufunc is _np.square:
                return _map(lambda a: a * a, ins[0])
        if method == "reduce" and any_obj:
            if ufunc in (_np.logical_and, _np.logical_or):
                return (sall if ufunc is _np.logical_and else sany)(ins[0], axis=kwargs.get("axis", 0), keepdims=kwargs.get("keepdims", False))
            if ufunc in (_np.maximum, _np.minimum):
                return _reduce_minmax(ins[0], ufunc is _np.maximum, kwargs.get("axis", 0), kwargs.get("keepdims", False))
        res = getattr(ufunc, method)(*ins, **kwargs)
        if isinstance(res, tuple):
            return tuple(wrap(r) for r in res)
        return wrap(res)

    # indexing with symbolic masks forces the mask
    def __getitem__(self, idx):
        idx = _concrete_index(idx)
        r = _np.ndarray.__getitem__(self, idx)
        return r

    def __setitem__(self, idx, value):
        idx = _concrete_index(idx)
        if self.dtype != object:
            if _is_symbolic_obj(value) or (isinstance(value, _np.ndarray) and value.dtype == object and _has_symbolic(value)):
                if self.dtype == bool:
                    value = _force_bool(value)
                else:
                    raise EngineGap("assignment of symbolic values into a concrete %s array" % self.dtype)
        _np.ndarray.__setitem__(self, idx, value)

    def astype(self, dtype, *a, **k):
        dt = _np.dtype(dtype) if not _is_symclass(dtype) else _np.dtype(object)
        if self.dtype == object:
            if dt == bool:
                if any(isinstance(x, SymBool) for x in self.flat):
                    return self.copy()
                return _np.ndarray.astype(self.view(_np.ndarray), bool).view(SymArray)
            if dt.kind in "iu" and not _has_symbolic(self):
                return _np.ndarray.astype(self.view(_np.ndarray), dt).view(SymArray)
            if dt.kind == "U":
                return _map(repr, self.view(_np.ndarray))
            return self.copy()
        if dt.kind in "fc":
            return to_obj(self)
        return _np.ndarray.astype(self, dt, *a, **k)

    def argmax(self, axis=None, out=None, keepdims=False):
        return sargmax(self, axis=axis, keepdims=keepdims)

    def max(self, axis=None, out=None, keepdims=False, **k):
        return smax(self, axis=axis, keepdims=keepdims)

    def min(self, axis=None, out=None, keepdims=False, **k):
        return smin(self, axis=axis, keepdims=keepdims)

    def all(self, axis=None, out=None, keepdims=False, **k):
        return sall(self, axis=axis, keepdims=keepdims)

    def any(self, axis=None, out=None, keepdims=False, **k):
        return sany(self, axis=axis, keepdims=keepdims)

    def nonzero(self):
        return snonzero(self)

    def conj(self):
        return sconj(self)

    conjugate = conj

    @property
    def real(self):
        if self.dtype != object:
            return _np.ndarray.real.__get__(self)
        return _map(lambda v: v.real if isinstance(v, Sym) else v, self.view(_np.ndarray))

    @property
    def imag(self):
        if self.dtype != object:
            return _np.ndarray.imag.__get__(self)
        return _map(lambda v: v.imag if isinstance(v, Sym) else 0, self.view(_np.ndarray))

    def __bool__(self):
        if self.size != 1:
            raise ValueError("The truth value of an array with more than one element is ambiguous.")
        return bool(self.reshape(-1)[0])

    def tolist(self):
        return self.view(_np.ndarray).tolist()

    def __repr__(self):
        return "SymArray(%s)" % (self.view(_np.ndarray).tolist(),)

    __str__ = __repr__


def _is_symclass(t):
    return isinstance(t, type) and issubclass(t, (Sym, SymBool))


def _has_symbolic(a):
    if not isinstance(a, _np.ndarray) or a.dtype != object:
        return False
    for x in a.reshape(-1):
        if isinstance(x, (Sym, SymBool)):
            return True
    return False


def _sign(v):
    if isinstance(v, Sym):
        if bool(v < 0):
            return -1
        if bool(v > 0):
            return 1
        return 0
    return (v > 0) - (v < 0)


def _force_bool(value):
    if isinstance(value, _np.ndarray):
        flat = [bool(x) for x in value.reshape(-1)]
        return _np.array(flat, dtype=bool).reshape(value.shape)
    return bool(value)


def _concrete_index(idx):
    if isinstance(idx, tuple):
        if any(isinstance(i, _np.ndarray) and i.dtype == object for i in idx) or any(_is_symbolic_obj(i) for i in idx):
            return tuple(_concrete_index_elem(i) for i in idx)
        return idx
    return _concrete_index_elem(idx)


def _concrete_index_elem(i):
    if isinstance(i, SymBool):
        return bool(i)
    if isinstance(i, Sym):
        return int(i)
    if isinstance(i, _np.ndarray) and i.dtype == object:
        flat = i.reshape(-1)
        if flat.size and all(isinstance(x, (SymBool, bool, _np.bool_)) for x in flat):
            return _np.array([bool(x) for x in flat], dtype=bool).reshape(i.shape)
        if all(isinstance(x, (int, _np.integer)) or (isinstance(x, Sym) and x.is_const()) for x in flat):
            return _np.array([int(x) for x in flat], dtype=int).reshape(i.shape)
        raise EngineGap("symbolic index array")
    return i


def wrap(r):
    """normalise a result coming out of numpy"""
    if isinstance(r, _np.ndarray):
        if r.dtype == object:
            base = r.view(_np.ndarray)
            flat = base.reshape(-1) if base.flags.c_contiguous or base.ndim <= 1 else None
            items = flat if flat is not None else [base[i] for i in _np.ndindex(*base.shape)]
            nb = nsb = nconst = 0
            n = 0
            for x in items:
                n += 1
                if isinstance(x, (bool, _np.bool_)):
                    nb += 1
                elif isinstance(x, SymBool):
                    nsb += 1
                    if x.op == "const":
                        nconst += 1
            if n and nb + nconst == n:
                out = _np.array([bool(x) for x in items], dtype=bool).reshape(base.shape)
                return out.view(SymArray)
            if nsb and nb:
                base = base.copy()
                for i in _np.ndindex(*base.shape):
                    x = base[i]
                    if isinstance(x, (bool, _np.bool_)):
                        base[i] = TRUE if x else FALSE
                return base.view(SymArray)
            if r.ndim == 0:
                return r[()]
        if not isinstance(r, SymArray):
            return r.view(SymArray)
        return r
    if isinstance(r, tuple):
        return tuple(wrap(x) for x in r)
    if isinstance(r, list):
        return [wrap(x) for x in r]
    return r


def to_obj(a):
    """exact object copy of a numeric array"""
    a = _np.asarray(a)
    if a.dtype == object:
        return a.copy().view(SymArray)
    out = _np.empty(a.shape, dtype=object)
    flat = out.reshape(-1)
    for k, v in enumerate(a.reshape(-1)):
        if isinstance(v, (_np.bool_,)):
            flat[k] = bool(v)
        elif isinstance(v, _np.integer):
            flat[k] = int(v)
        else:
            s = Sym.const(v)
            flat[k] = s
    return out.view(SymArray)


class _ComplexObjectDtype:
    """dtype reported by CSymArray: an object array whose entries denote complex numbers (numpy kind 'c')"""

    kind = "c"
    name = "complex128"
    type = complex

    def __eq__(self, o):
        return o is object or (isinstance(o, _np.dtype) and o == _np.dtype(object)) or isinstance(o, _ComplexObjectDtype)

    def __ne__(self, o):
        return not self.__eq__(o)

    def __hash__(self):
        return hash("complex-object")


class _PartArray(SymArray):
    """writable real / imaginary part of a CSymArray: numpy's `.real` / `.imag` of a complex array are VIEWS, so a
    store into the part (also `out=part`) is written through to the parent entry by entry"""

    _parent = None
    _part = None

    def __setitem__(self, idx, value):
        _np.ndarray.__setitem__(self.view(_np.ndarray), _concrete_index(idx), _unview(value) if isinstance(value, _np.ndarray) else value)
        par = self._parent
        if par is None:
            return
        pb = par.view(_np.ndarray)
        sb = self.view(_np.ndarray)
        for i in _np.ndindex(*pb.shape):
            old = Sym.const(pb[i] if pb[i] is not None else 0)
            new = Sym.const(sb[i] if sb[i] is not None else 0)
            pb[i] = (new + Sym.const(1j) * old.imag) if self._part == "real" else (old.real + Sym.const(1j) * new)


class CSymArray(SymArray):
    """SymArray standing for a numpy array of COMPLEX dtype: reports dtype.kind == 'c'; real / imag are write-through parts"""

    dtype = property(lambda self: _ComplexObjectDtype())

    def _partview(self, which):
        base = self.view(_np.ndarray)
        out = _np.empty(base.shape, dtype=object)
        for i in _np.ndindex(*base.shape):
            v = Sym.const(base[i] if base[i] is not None else 0)
            out[i] = v.real if which == "real" else v.imag
        r = out.view(_PartArray)
        r._parent = self
        r._part = which
        return r

    real = property(lambda self: self._partview("real"))
    imag = property(lambda self: self._partview("imag"))


def _unview(a):
    return a.view(_np.ndarray) if isinstance(a, SymArray) else a


def _map(f, *arrs):
    arrs = [_unview(_np.asarray(a, dtype=object) if not isinstance(a, _np.ndarray) else a) for a in arrs]
    uf = _np.frompyfunc(f, len(arrs), 1)
    return wrap(uf(*arrs))


# ---------------------------------------------------------------------------------------------
# reductions over symbolic booleans / absolute values


def _norm_axis(axis, ndim):
    if axis is None:
        return tuple(range(ndim))
    if isinstance(axis, (int, _np.integer)):
        axis = (int(axis),)
    return tuple(sorted(a % ndim for a in axis))


def _reduce_obj(a, axis, keepdims, f, empty):
    a = _unview(_np.asarray(a))
    if a.ndim == 0:
        return f([a[()]])
    ax = _norm_axis(axis, a.ndim)
    keep = [i for i in range(a.ndim) if i not in ax]
    t = a.transpose(keep + list(ax))
    kshape = tuple(a.shape[i] for i in keep)
    t = t.reshape(kshape + (-1,))
    out = _np.empty(kshape, dtype=object)
    for i in _np.ndindex(*kshape):
        out[i] = f(list(t[i])) if t.shape[-1] else empty
    if keepdims:
        shp = [1 if i in ax else a.shape[i] for i in range(a.ndim)]
        out = out.reshape(shp)
    return wrap(out)


def sall(a, axis=None, out=None, keepdims=False, **k):
    a = _np.asarray(a) if not isinstance(a, _np.ndarray) else a
    if a.dtype != object:
        return wrap(_np.all(_unview(a), axis=axis, keepdims=keepdims))
    return _reduce_obj(a, axis, keepdims, lambda xs: band(*[S._tobool(x) for x in xs]), TRUE)


def sany(a, axis=None, out=None, keepdims=False, **k):
    a = _np.asarray(a) if not isinstance(a, _np.ndarray) else a
    if a.dtype != object:
        return wrap(_np.any(_unview(a), axis=axis, keepdims=keepdims))
    return _reduce_obj(a, axis, keepdims, lambda xs: bor(*[S._tobool(x) for x in xs]), FALSE)


class MaxTok:
    """max of absolute values of a lane: only consumed by frexp (power-of-two normalisation)"""

    def __init__(self, items):
        self.items = items

    def __repr__(self):
        return "max|.|"


def _minmax_list(xs, is_max):
    if is_max and len(xs) > 1 and any(isinstance(x, AbsSym) for x in xs) and all(
        isinstance(x, AbsSym) or (isinstance(x, Sym) and x.is_const()) or isinstance(x, (int, float, Fraction)) for x in xs
    ):
        return MaxTok(xs)
    best = xs[0]
    for x in xs[1:]:
        if is_max:
            if bool(x > best):
                best = x
        else:
            if bool(x < best):
                best = x
    return best


def _reduce_minmax(a, is_max, axis, keepdims):
    a = _np.asarray(a) if not isinstance(a, _np.ndarray) else a
    if a.dtype != object:
        return wrap((_np.max if is_max else _np.min)(_unview(a), axis=axis, keepdims=keepdims))
    return _reduce_obj(a, axis, keepdims, lambda xs: _minmax_list(xs, is_max), None)


def smax(a, axis=None, out=None, keepdims=False, **k):
    if isinstance(a, (list, tuple)):
        a = sarray(a)
    return _reduce_minmax(a, True, axis, keepdims)


def smin(a, axis=None, out=None, keepdims=False, **k):
    if isinstance(a, (list, tuple)):
        a = sarray(a)
    return _reduce_minmax(a, False, axis, keepdims)


def _argmax_list(xs):
    """position of the maximum.  |.|-lists: fork over positions k with H_k: x_k != 0 or all zero.
    boolean lists: first true position (0 if none)."""
    if all(isinstance(x, (SymBool, bool, _np.bool_)) for x in xs):
        for k, x in enumerate(xs):
            if bool(x):
                return k
        return 0
    if all(isinstance(x, AbsSym) or (isinstance(x, Sym) and x.is_const()) or isinstance(x, (int, float, Fraction)) for x in xs) and any(
        isinstance(x, AbsSym) for x in xs
    ):
        inner = [x.inner if isinstance(x, AbsSym) else Sym.const(x) for x in xs]
        n = len(xs)
        # candidates: entries that are not identically zero
        cand = [k for k in range(n) if not inner[k].is_zero_nf()]
        if not cand:
            return 0
        allzero = band(*[mk_eq0(inner[k]) for k in cand])
        if bool(allzero):
            return 0  # numpy: arg-max of an all-zero lane is the first position
        pick = cand[-1]
        for k in cand[:-1]:
            if S.HOOK.choose(("argmax", k)):
                pick = k
                break
        # H_k: the chosen entry is non-zero (every behaviour of the true arg-max is among these)
        S.HOOK.assume(bnot(mk_eq0(inner[pick])))
        _soft_argmax(inner, pick)
        return pick
    # generic: true comparisons
    best = 0
    for k in range(1, len(xs)):
        if bool(xs[k] > xs[best]):
            best = k
    return best


def _soft_argmax(inner, k):
    if S.cur().mode != "real":
        return
    try:
        for j, v in enumerate(inner):
            if j != k and not S._has_i(v.n) and not S._has_i(inner[k].n):
                S.HOOK.soft((v * v) <= (inner[k] * inner[k]))
    except Exception:
        pass


_choice_counter = [0]


def _choice(tag):
    """a free boolean choice (nondeterminism of an over-approximated leaf): a fresh atom c == 0"""
    R = S.cur()
    g = R.fresh("choice", tag=tag)
    return SymBool("eq", (g,))


def sargmax(a, axis=None, out=None, keepdims=False):
    a = _np.asarray(a) if not isinstance(a, _np.ndarray) else a
    if a.dtype != object:
        return wrap(_np.argmax(_unview(a), axis=axis, keepdims=keepdims))
    a = _unview(a)
    if axis is None:
        r = _argmax_list(list(a.reshape(-1)))
        if keepdims:
            return _np.full((1,) * a.ndim, r, dtype=int)
        return r
    axis = axis % a.ndim
    t = _np.moveaxis(a, axis, -1)
    out = _np.empty(t.shape[:-1], dtype=int)
    for i in _np.ndindex(*t.shape[:-1]):
        out[i] = _argmax_list(list(t[i]))
    if keepdims:
        out = _np.expand_dims(out, axis)
    if out.ndim == 0:
        return int(out)
    return out.view(SymArray)


def snonzero(a):
    a = _np.asarray(a) if not isinstance(a, _np.ndarray) else a
    if a.dtype != object:
        return wrap(_np.nonzero(_unview(a)))
    mask = _np.array([bool(x) if isinstance(x, (SymBool, bool)) else bool(bnot(mk_eq0(Sym.const(x)))) for x in _unview(a).reshape(-1)], dtype=bool)
    return _np.nonzero(mask.reshape(a.shape))


def sconj(a):
    if isinstance(a, Sym):
        return a.conjugate()
    a = _np.asarray(a) if not isinstance(a, _np.ndarray) else a
    if a.dtype != object:
        return wrap(_np.conj(_unview(a)))
    return _map(lambda v: v.conjugate() if isinstance(v, Sym) else (v.conjugate() if hasattr(v, "conjugate") else v), _unview(a))


# ---------------------------------------------------------------------------------------------
# leaf contracts


def sisclose(a, b, rtol=1e-5, atol=1e-8, equal_nan=False):
    """idealised: |a - b| <= atol + rtol |b|  becomes  a == b"""

    def f(x, y):
        if isinstance(x, MaxTok) or isinstance(y, MaxTok):
            raise EngineGap("isclose of max token")
        d = Sym.const(x) - y if not isinstance(x, Sym) else x - y
        if isinstance(d, Sym):
            return mk_eq0(d)
        return TRUE if d == 0 else FALSE

    return _map(f, a, b)


def sallclose(a, b, rtol=1e-5, atol=1e-8, equal_nan=False):
    return sall(sisclose(a, b, rtol, atol))


class ExpSym:
    """an integer exponent e represented by v = 2**e (a positive scale)"""

    __array_priority__ = 1000

    def __init__(self, v):
        self.v = v

    def __sub__(self, o):
        if isinstance(o, ExpSym):
            return ExpSym(self.v * _inv_scale(o.v))
        if isinstance(o, (int, _np.integer)):
            return ExpSym(self.v * Fraction(1, 2) ** int(o) if o >= 0 else self.v * 2 ** int(-o))
        return NotImplemented

    def __add__(self, o):
        if isinstance(o, ExpSym):
            return ExpSym(self.v * o.v)
        if isinstance(o, (int, _np.integer)):
            return self - (-int(o))
        return NotImplemented

    def __neg__(self):
        return ExpSym(_inv_scale(self.v))

    def __radd__(self, o):
        return self.__add__(o)

    def __rsub__(self, o):
        return (-self).__add__(o)

    def __mul__(self, o):
        # k * e for an integer constant k: 2**(k e) = v**k
        if isinstance(o, (int, _np.integer)) and not isinstance(o, bool):
            k = int(o)
            if k == 0:
                return ExpSym(Sym.const(1))
            base = self.v if k > 0 else _inv_scale(self.v)
            r = base
            for _ in range(abs(k) - 1):
                r = r * base
            return ExpSym(r)
        return NotImplemented

    __rmul__ = __mul__

    def __repr__(self):
        return "log2(%r)" % (self.v,)


def _inv_scale(v):
    """1/v for a scale (known positive): partner generator when v is a bare generator"""
    R = S.cur()
    if isinstance(v, Sym) and not v.is_const() and v.d.is_ground and len(v.n) == 1:
        (m, c), = v.n.items()
        if c == 1 and sum(m) == 1:
            k = m.index(1)
            meta = R.meta.get(k)
            if meta and meta["kind"] == "scale":
                if "inv" not in meta:
                    w = R.fresh("scale", why="inverse of %s" % R.names[k])
                    kw = max(R.meta)
                    meta["inv"] = kw
                    R.meta[kw]["inv"] = k
                    R.meta[kw]["rels"] = [mk_eq0(v * w - 1)]
                return Sym(R.gens[meta["inv"]], R.one)
    return S._div_nocheck(Sym.const(1), v) if isinstance(v, Sym) else 1 / Fraction(v)


def _fresh_scale(why):
    R = S.cur()
    g = R.fresh("scale", why=why)
    R.facts.append((Sym.const(0) < g) if R.mode == "real" else bnot(mk_eq0(g)))
    return g


SCALE_BOUNDS_FACTS = False


def _scale_bounds(tok, g):
    """frexp of a lane maximum m: m = mant * 2**e with 1/2 <= mant < 1 (or m == 0, e == 0).  With w = 2**-e the
    partner scale: every |x_i| * w < 1 and some |x_i| * w >= 1/2 (real mode; recorded as facts of the generator)"""
    R = S.cur()
    if R.mode != "real":
        return
    w = _inv_scale(g)
    inner = []
    for x in tok.items:
        v = x.inner if isinstance(x, AbsSym) else Sym.const(x)
        if x.__class__ is AbsSym and x.sq is not None:
            return
        if S._has_i(v.n):
            return
        if not v.is_zero_nf():
            inner.append(v)
    if not inner or len(inner) > 16:
        return
    # recorded for the exact rule in sym.mk_eq0:  |x_i * w| < 1, hence  c*x_i*w == b  is false for |b| >= |c|
    kw = None
    for k, m in R.meta.items():
        if m.get("kind") == "scale" and R.gens[k] == w.n:
            kw = k
    if kw is not None:
        R.meta[kw]["lane"] = [v for v in inner if v.d.is_ground and v.d.LC == 1]


def sfrexp(x, *a, **k):
    """frexp(x) = (m, e) with x == m * 2**e.  e is represented as ExpSym(v), v = 2**e > 0 a fresh scale."""

    def f(v):
        if isinstance(v, MaxTok):
            return ("tok",)
        return None

    x = _np.asarray(x) if not isinstance(x, (_np.ndarray, MaxTok, Sym)) else x
    if isinstance(x, (MaxTok, Sym)):
        x = _np.array(x, dtype=object)
    xb = _unview(x)
    if xb.dtype != object:
        xb = _unview(to_obj(xb))
    man = _np.empty(xb.shape, dtype=object)
    exp = _np.empty(xb.shape, dtype=object)
    for i in _np.ndindex(*xb.shape):
        v = xb[i]
        g = _fresh_scale("frexp exponent")
        exp[i] = ExpSym(g)
        if isinstance(v, MaxTok):
            man[i] = None
            _scale_bounds(v, g)
        else:
            if isinstance(v, AbsSym):
                v = v.resolve()
            man[i] = Sym.const(v) * _inv_scale(g)
    if xb.ndim == 0:
        return man[()], exp[()]
    return man.view(SymArray), exp.view(SymArray)


def sldexp(m, e, out=None, **k):
    def f(a, b):
        if not isinstance(b, ExpSym):
            if isinstance(b, (int, _np.integer)):
                return a * (Fraction(2) ** int(b))
            raise EngineGap("ldexp with non-ExpSym exponent")
        return a * b.v

    r = _map(f, m, e)
    if out is not None:
        out[...] = r
        return out
    return r


def ssqrt(x, *a, **k):
    if isinstance(x, (Sym, int, float, complex, Fraction)):
        return S.sym_sqrt(Sym.const(x))
    return _map(lambda v: S.sym_sqrt(Sym.const(v)), x)


def sabs(x, *a, **k):
    if isinstance(x, Sym):
        return abs(x)
    if isinstance(x, (int, float, complex, Fraction)):
        return abs(x)
    x = _np.asarray(x) if not isinstance(x, _np.ndarray) else x
    if x.dtype != object:
        return wrap(_np.abs(_unview(x)))
    return _map(abs, x)


def snorm(x, ord=None, axis=None, keepdims=False):
    x = _np.asarray(x) if not isinstance(x, _np.ndarray) else x
    if x.dtype != object:
        x = to_obj(x)
    if ord is not None:
        raise EngineGap("norm with ord")

    def sq(v):
        v = Sym.const(v)
        if S._has_i(v.n):
            return v.real * v.real + v.imag * v.imag
        if S.cur().mode == "field" and not v.is_const():
            raise EngineGap("norm of a complex symbol (field mode)")
        return v * v

    return _reduce_obj(x, axis, keepdims, lambda xs: S.sym_sqrt(sum((sq(v) for v in xs), Sym.const(0))), None)


def sdet_obj(m):
    """Leibniz/Laplace determinant on nested object arrays [..., n, n]"""
    m = _unview(_np.asarray(m))
    n = m.shape[-1]
    if m.ndim > 2:
        out = _np.empty(m.shape[:-2], dtype=object)
        for i in _np.ndindex(*m.shape[:-2]):
            out[i] = sdet_obj(m[i])
        return wrap(out)

    def det(rows, cols):
        if len(rows) == 1:
            return m[rows[0], cols[0]]
        if len(rows) == 2:
            return m[rows[0], cols[0]] * m[rows[1], cols[1]] - m[rows[0], cols[1]] * m[rows[1], cols[0]]
        tot = 0
        r0 = rows[0]
        for j, c in enumerate(cols):
            e = m[r0, c]
            if isinstance(e, (int, float)) and e == 0:
                continue
            if isinstance(e, Sym) and e.is_zero_nf():
                continue
            sub = det(rows[1:], cols[:j] + cols[j + 1 :])
            tot = tot + (e * sub if j % 2 == 0 else -(e * sub))
        return tot

    r = det(list(range(n)), list(range(n)))
    return r if isinstance(r, Sym) else Sym.const(r)


def sadj_obj(m):
    m = _unview(_np.asarray(m))
    n = m.shape[-1]
    out = _np.empty((n, n), dtype=object)
    for i in range(n):
        for j in range(n):
            rows = [r for r in range(n) if r != j]
            cols = [c for c in range(n) if c != i]
            sub = m[_np.ix_(rows, cols)]
            d = sdet_obj(sub) if n > 1 else Sym.const(1)
            out[i, j] = d if (i + j) % 2 == 0 else -d
    return out


def slinalg_det(a):
    a = _np.asarray(a) if not isinstance(a, _np.ndarray) else a
    if a.dtype != object:
        a = to_obj(a)
    return sdet_obj(a)


def slinalg_inv(a):
    """leaf contract of np.linalg.inv: adj(A)/det(A); singular input raises LinAlgError"""
    a = _np.asarray(a) if not isinstance(a, _np.ndarray) else a
    if a.dtype != object:
        a = to_obj(a)
    a = _unview(a)
    if a.ndim > 2:
        out = _np.empty(a.shape, dtype=object)
        for i in _np.ndindex(*a.shape[:-2]):
            out[i] = _unview(slinalg_inv(a[i]))
        return wrap(out)
    # clear a common denominator first: inv(N/D) = D adj(N)/det(N)
    R = S.cur()
    D = None
    flat = [Sym.const(v) for v in a.reshape(-1)]
    dens = []
    for v in flat:
        if not (v.d.is_ground and v.d.LC == 1):
            if not any(v.d == q for q in dens):
                dens.append(v.d)
    if len(dens) == 1 and not dens[0].is_ground:
        Dp = dens[0]
        D = Sym(Dp, R.one)
        N = _np.empty(a.shape, dtype=object)
        for idx in _np.ndindex(*a.shape):
            v = Sym.const(a[idx])
            N[idx] = Sym(v.n, R.one) if v.d == Dp else v * D
        a = N
    d = sdet_obj(a)
    if bool(mk_eq0(d)):
        raise _np.linalg.LinAlgError("Singular matrix")
    if isinstance(d, Sym) and not d.is_const() and not S._has_i(d.n):
        R.note_den_factor(d.n)
        if D is not None:
            R.note_den_factor(D.n)
    adj = sadj_obj(a)
    inv = S._div_nocheck(Sym.const(1), d)
    if D is not None:
        return _map(lambda v: (v * D) * inv, adj)
    return _map(lambda v: v * inv, adj)


def slinalg_solve(a, b):
    inv = slinalg_inv(a)
    b = _np.asarray(b) if not isinstance(b, _np.ndarray) else b
    return wrap(_np.matmul(_unview(inv), _unview(to_obj(b) if b.dtype != object else b)))


def seigvalsh(m, *a, **k):
    """leaf contract of np.linalg.eigvalsh AS USED BY geometer (QuadricTensor.__init__, normalize_matrix): the eigenvalues
    only enter through  prod(where(|w| > tol, |w|, 1)) ** (1/n),  a strictly positive number.  They are modelled as fresh
    strictly positive generators, which over-approximates that scalar by an arbitrary positive number."""
    m = _np.asarray(m) if not isinstance(m, _np.ndarray) else m
    R = S.cur()
    out = _np.empty(m.shape[:-1], dtype=object)
    for i in _np.ndindex(*out.shape):
        g = R.fresh("pos", why="|eigenvalue| (normalisation scalar only)")
        R.facts.append((Sym.const(0) < g) if R.mode == "real" else bnot(mk_eq0(g)))
        out[i] = g
    return out.view(SymArray)


def _gap(name):
    def f(*a, **k):
        raise EngineGap("leaf %s has no contract installed" % name)

    return f


def sreal_if_close(a, tol=100):
    a = _np.asarray(a) if not isinstance(a, _np.ndarray) else a
    if a.dtype != object:
        return wrap(_np.real_if_close(_unview(a), tol))
    flat = _unview(a).reshape(-1)
    if all((not isinstance(v, Sym)) or (not S._has_i(v.n)) for v in flat):
        return a
    return a


def sisreal(a):
    return _map(lambda v: mk_eq0(Sym.const(v).imag) if isinstance(v, Sym) else True, a)


def sreal(a):
    if isinstance(a, Sym):
        return a.real
    if isinstance(a, (int, float, Fraction)):
        return a
    if isinstance(a, complex):
        return a.real
    return _map(lambda v: v.real if isinstance(v, (Sym, complex)) else v, a)


def simag(a):
    if isinstance(a, Sym):
        return a.imag
    return _map(lambda v: v.imag if isinstance(v, (Sym, complex)) else 0, a)


def sisinf(a):
    if isinstance(a, Sym):
        return a.special == "inf"
    if isinstance(a, (int, float)):
        return math.isinf(a)
    return _map(lambda v: (isinstance(v, Sym) and v.special == "inf") or (isinstance(v, float) and math.isinf(v)), a)


def sisscalar(x):
    return isinstance(x, (Sym, SymBool)) or _np.isscalar(x)


def swhere(cond, *args):
    if not args:
        return snonzero(cond)
    x, y = args
    cond = _np.asarray(cond) if not isinstance(cond, _np.ndarray) else cond
    if cond.dtype == object:
        c = _force_bool(_unview(cond))
    else:
        c = _unview(cond)
    xs = _np.asarray(x, dtype=object) if not isinstance(x, _np.ndarray) else _unview(x)
    ys = _np.asarray(y, dtype=object) if not isinstance(y, _np.ndarray) else _unview(y)
    if xs.dtype != object and ys.dtype != object:
        return wrap(_np.where(c, xs, ys))
    r = _np.where(c, xs.astype(object), ys.astype(object))
    if r.ndim == 0:
        v = r[()]
        return v if isinstance(v, (Sym, SymBool)) else Sym.const(v)  # keeps x[..., None] working like a 0-d array
    return wrap(r)


def sdivide(a, b, out=None, where=True, **k):
    if where is not True:
        w = _np.asarray(where) if not isinstance(where, _np.ndarray) else where
        w = _force_bool(_unview(w)) if w.dtype == object else _unview(w)
        a_, b_, w_ = _np.broadcast_arrays(_unview(_np.asarray(a, dtype=object)), _unview(_np.asarray(b, dtype=object)), w)
        if out is None:
            raise EngineGap("divide(where=) without out")
        res = _unview(out)
        for i in _np.ndindex(*w_.shape):
            if w_[i]:
                res[i] = Sym.const(a_[i]) / b_[i]
        return out
    r = _map(lambda x, y: Sym.const(x) / y, a, b)
    if out is not None:
        out[...] = r
        return out
    return r


def _creation(fn):
    def f(*a, **k):
        dt = k.get("dtype", None)
        if dt is None and fn in (_np.zeros, _np.ones, _np.empty, _np.eye) and len(a) >= 2 and fn is not _np.eye:
            dt = a[1]
            a = a[:1]
            k["dtype"] = dt
        if fn is _np.eye and dt is None and len(a) >= 4:
            dt = a[3]
        if dt is None:
            k["dtype"] = object
        else:
            if _is_symclass(dt):
                k["dtype"] = object
            else:
                d = _np.dtype(dt)
                if d.kind in "fc":
                    k["dtype"] = object
        r = fn(*a, **k)
        if r.dtype == object and fn is _np.empty:
            r.fill(0)
        if r.dtype == object and fn is _np.eye:
            # numpy puts int 1/0 already
            pass
        return wrap(r)

    return f


def _like(fn):
    def f(a, dtype=None, **k):
        a0 = _np.asarray(a) if not isinstance(a, _np.ndarray) else a
        d = _np.dtype(dtype) if dtype is not None and not _is_symclass(dtype) else a0.dtype
        if _is_symclass(dtype) or d.kind in "fciuO":
            r = _np.empty(a0.shape, dtype=object)
            r.fill(1 if fn is _np.ones_like else 0)
            return r.view(CSymArray if isinstance(a0, CSymArray) and dtype is None else SymArray)
        return wrap(fn(_unview(a0), dtype=dtype, **k))

    return f


def sarray(obj, *a, **k):
    dt = k.get("dtype", None)
    if dt is not None and (_is_symclass(dt) or _np.dtype(dt).kind in "fc"):
        k = dict(k)
        k.pop("dtype")
        r = _np.array(_unviewdeep(obj), *a, **k)
        if r.dtype != object:
            r = _unview(to_obj(r))
        return wrap(r)
    r = _np.array(_unviewdeep(obj), *a, **k)
    return wrap(r)


def _unviewdeep(o):
    if isinstance(o, SymArray):
        return o.view(_np.ndarray)
    if isinstance(o, (list, tuple)) and any(isinstance(x, (SymArray, list, tuple)) for x in o):
        return type(o)(_unviewdeep(x) for x in o)
    return o


def sasarray(obj, dtype=None, **k):
    if isinstance(obj, SymArray) and dtype is None:
        return obj
    if isinstance(obj, (Sym, SymBool)):
        r = _np.empty((), dtype=object)
        r[()] = obj
        return r.view(SymArray)
    if dtype is not None and (_is_symclass(dtype) or _np.dtype(dtype).kind in "fc"):
        dtype = None
    return wrap(_np.asarray(_unviewdeep(obj), dtype=dtype, **k))


def spromote_types(a, b):
    def isobj(t):
        if _is_symclass(t):
            return True
        try:
            return _np.dtype(t) == object
        except TypeError:
            return True

    if isobj(a) or isobj(b):
        return _np.dtype(object)
    return _np.promote_types(a, b)


def scommon_type(*arrs):
    if any(isinstance(a, _np.ndarray) and a.dtype == object for a in arrs):
        return object
    return _np.common_type(*[_unview(a) for a in arrs])


def saverage(a, axis=None, weights=None, **k):
    a = sarray(a) if not isinstance(a, _np.ndarray) else a
    if weights is None:
        n = a.size if axis is None else a.shape[axis]
        return wrap(_np.sum(_unview(a if a.dtype == object else to_obj(a)), axis=axis)) / n
    w = sarray(weights) if not isinstance(weights, _np.ndarray) else weights
    a = _unview(a if a.dtype == object else to_obj(a))
    w = _unview(w if w.dtype == object else to_obj(w))
    if w.ndim == 1 and a.ndim > 1:
        shp = [1] * a.ndim
        shp[axis] = w.shape[0]
        wb = w.reshape(shp)
    else:
        wb = w
    num = _np.sum(a * wb, axis=axis)
    den = _np.sum(w)
    return wrap(_map(lambda x: Sym.const(x) / den, num) if isinstance(num, _np.ndarray) else Sym.const(num) / den)


def smaximum(a, b, **k):
    return _map(lambda x, y: x if bool(S._tobool(x >= y)) else y, a, b)


def scross(a, b, *args, **k):
    a = _np.asarray(a) if not isinstance(a, _np.ndarray) else a
    b = _np.asarray(b) if not isinstance(b, _np.ndarray) else b
    a = _unview(a if a.dtype == object else to_obj(a))
    b = _unview(b if b.dtype == object else to_obj(b))
    return wrap(_np.cross(a, b, *args, **k))


def sdiag(v, k=0):
    v = _np.asarray(_unviewdeep(v)) if not isinstance(v, _np.ndarray) else v
    return wrap(_np.diag(_unview(v), k))


def scos(x):
    if isinstance(x, (int, float)):
        return _exact_trig(x)[0]
    if isinstance(x, Sym):
        return x.cos()
    return _map(lambda v: Sym.const(v).cos(), x)


def ssin(x):
    if isinstance(x, (int, float)):
        return _exact_trig(x)[1]
    if isinstance(x, Sym):
        return x.sin()
    return _map(lambda v: Sym.const(v).sin(), x)


def _exact_trig(x):
    return Sym.const(math.cos(x)), Sym.const(math.sin(x))


class LogSym:
    """opaque value  factor * log(arg)  (+ only real-part extraction is modelled)"""

    __array_priority__ = 1000

    def __init__(self, arg, factor=None, real=False):
        self.arg = arg
        self.factor = factor if factor is not None else Sym.const(1)
        self.is_real_part = real

    def __mul__(self, o):
        return LogSym(self.arg, self.factor * Sym.const(o), self.is_real_part)

    __rmul__ = __mul__

    def __truediv__(self, o):
        return LogSym(self.arg, self.factor / Sym.const(o), self.is_real_part)

    @property
    def real(self):
        return LogSym(self.arg, self.factor, True)

    def __repr__(self):
        return "%s(%r*log(%r))" % ("Re" if self.is_real_part else "", self.factor, self.arg)


def slog(x):
    if isinstance(x, Sym):
        return LogSym(x)
    return _map(lambda v: LogSym(Sym.const(v)), x)


def sreal2(a):
    if isinstance(a, LogSym):
        return a.real
    if isinstance(a, _np.ndarray) and a.dtype == object and a.size and isinstance(_unview(a).reshape(-1)[0], LogSym):
        return _map(lambda v: v.real, a)
    return sreal(a)


# ---------------------------------------------------------------------------------------------
# the proxy


class _Linalg:
    LinAlgError = _np.linalg.LinAlgError

    def __init__(self, overrides):
        self._ov = overrides

    def __getattr__(self, name):
        if name in self._ov:
            return self._ov[name]
        return _passthrough(getattr(_np.linalg, name))


def _passthrough(fn):
    if isinstance(fn, type) or not callable(fn):
        return fn

    def f(*a, **k):
        a = tuple(_unviewdeep(x) for x in a)
        k = {kk: _unviewdeep(v) for kk, v in k.items()}
        return wrap(fn(*a, **k))

    f.__name__ = getattr(fn, "__name__", "np_fn")
    f.__wrapped__ = fn
    return f


class NPProxy:
    def __init__(self):
        self._linalg_ov = {
            "det": slinalg_det,
            "inv": slinalg_inv,
            "solve": slinalg_solve,
            "norm": snorm,
            "svd": _gap("linalg.svd"),
            "qr": _gap("linalg.qr"),
            "eigvalsh": seigvalsh,
        }
        self.linalg = _Linalg(self._linalg_ov)
        self._ov = {
            "isclose": sisclose,
            "allclose": sallclose,
            "all": sall,
            "any": sany,
            "max": smax,
            "amax": smax,
            "min": smin,
            "amin": smin,
            "argmax": sargmax,
            "nonzero": snonzero,
            "abs": sabs,
            "absolute": sabs,
            "sqrt": ssqrt,
            "frexp": sfrexp,
            "ldexp": sldexp,
            "real_if_close": sreal_if_close,
            "isreal": sisreal,
            "real": sreal2,
            "imag": simag,
            "conj": sconj,
            "conjugate": sconj,
            "isinf": sisinf,
            "isscalar": sisscalar,
            "where": swhere,
            "divide": sdivide,
            "zeros": _creation(_np.zeros),
            "ones": _creation(_np.ones),
            "empty": _creation(_np.empty),
            "eye": _creation(_np.eye),
            "zeros_like": _like(_np.zeros_like),
            "ones_like": _like(_np.ones_like),
            "empty_like": _like(_np.empty_like),
            "array": sarray,
            "asarray": sasarray,
            "asanyarray": sasarray,
            "promote_types": spromote_types,
            "common_type": scommon_type,
            "average": saverage,
            "maximum": smaximum,
            "cross": scross,
            "diag": sdiag,
            "cos": scos,
            "sin": ssin,
            "log": slog,
            "arccos": _gap("arccos"),
            "cbrt": lambda x: (S.sym_cbrt(Sym.const(x)) if not isinstance(x, _np.ndarray) else _map(lambda v: S.sym_cbrt(Sym.const(v)), x)),
            "spacing": _gap("spacing"),
            "roots": _gap("np.roots"),
            "argsort": _gap("argsort"),
            "generic": (_np.generic, Sym, SymBool),
        }

    def __getattr__(self, name):
        ov = self.__dict__["_ov"]
        if name in ov:
            return ov[name]
        v = getattr(_np, name)
        if isinstance(v, type) or not callable(v) or isinstance(v, _np.ufunc) and False:
            return v
        if name in ("errstate", "dtype", "ndindex", "broadcast", "vectorize", "issubdtype", "ufunc", "printoptions"):
            return v
        return _passthrough(v)


snp = NPProxy()
